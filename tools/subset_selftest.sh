#!/bin/bash
cd /verif
for name in "$@"; do
  d=seeded/$name
  ids=$(python3 -c "import json; m=json.load(open('$d/meta.json')); print(' '.join(m.get('caught_by_quick') or m.get('silent') or [m['property']]))")
  res=$(tools/try_patch.sh /verif/$d/patch.diff quick $ids 2>&1)
  echo "$name :: $(echo "$res" | grep -E '^== |patch does not apply' | tr '\n' ' ')"
done
