#!/usr/bin/env python3
"""Rewrites the table between the SEEDED-TABLE markers of DESIGN.md from /verif/seeded/*/meta.json."""
import glob, json, os
rows = []
for d in sorted(glob.glob('/verif/seeded/*/')):
    m = json.load(open(d + 'meta.json'))
    name = os.path.basename(d.rstrip('/'))
    what = m.get('what', '').strip().split('\n')
    what = m.get('summary') or what[0]
    if m.get('negative_control'):
        if 'silent' in m:
            res = 'negative control: silent in ' + ', '.join(m['silent'])
            if m.get('false_alarms'):
                res += '; **FALSE ALARM in ' + ', '.join(m['false_alarms']) + '**'
            if m.get('machinery_failures'):
                res += '; machinery failure (exit 2) in ' + ', '.join(m['machinery_failures'])
            if m.get('note'):
                res += ' — ' + m['note']
        else:
            res = 'negative control: ' + ('silent (correct)' if m.get('caught_by_quick') is not None else '?')
    else:
        cq = m.get('caught_by_quick', [])
        ct = m.get('caught_by_thorough', [])
        res = ('caught by ' + ', '.join(cq) + ' (quick)') if cq else (('caught by ' + ', '.join(ct) + ' (thorough only)') if ct else '**MISSED**')
        if m.get('note'):
            res += ' — ' + m['note']
    origin = 'agent' if name.startswith('agent') or name.startswith('negative-agent') else 'own'
    rows.append(f"| `{name}` | {m['property']} | {origin} | {what[:230].replace('|', '/')} | {res} |")
table = "| seeded change | property | by | needs, in order to manifest | result |\n|---|---|---|---|---|\n" + "\n".join(rows) + "\n"
p = '/verif/DESIGN.md'
s = open(p).read()
a = s.index('<!-- SEEDED-TABLE-BEGIN -->') + len('<!-- SEEDED-TABLE-BEGIN -->')
b = s.index('<!-- SEEDED-TABLE-END -->')
s = s[:a] + "\n" + table + s[b:]
open(p, 'w').write(s)
print(len(rows), 'rows')
