#!/usr/bin/env python3
"""Re-runs the named checks (quick) against a kept seeded change after a check was strengthened and updates
meta.json: caught_by_quick, plus the history of what the first version of the checks did.
usage: recheck_seeded.py <seeded-name> <note about the strengthening> <check ids ...>"""
import json, subprocess, sys
name, note = sys.argv[1:3]
checks = sys.argv[3:]
d = f"/verif/seeded/{name}"
m = json.load(open(f"{d}/meta.json"))
res = subprocess.run(f"/verif/tools/try_patch.sh {d}/patch.diff quick {' '.join(checks)}", shell=True, capture_output=True, text=True).stdout
caught = [c for c in checks if f"== {c} quick exit=1" in res]
if "first_run" not in m:
    m["first_run"] = {"checks_run_quick": m.get("checks_run_quick"), "caught_by_quick": m.get("caught_by_quick")}
m["checks_run_quick"] = checks
m["caught_by_quick"] = caught
m["note"] = note
json.dump(m, open(f"{d}/meta.json", "w"), indent=1)
print(name, "caught_by_quick:", caught)
for l in res.splitlines():
    if l.startswith("  [") or l.startswith("=="):
        print("   ", l[:200])
