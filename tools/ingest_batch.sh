#!/bin/bash
# usage: ingest_batch.sh "C14:slug" "C18:slug" ...
cd /verif
for spec in "$@"; do
  id=${spec%%:*}; slug=${spec#*:}
  echo "##### $id $slug"
  python3 tools/ingest_agent.py /tmp/wt/${ROUND:-R5}$id.out agent${AG:-5}-$id-$slug $id 2>&1 | tail -8
done
