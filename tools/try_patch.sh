#!/bin/bash
# usage: try_patch.sh <patch.diff> <tier> <ID> [<ID> ...]
# Applies the patch to /repo's working tree, runs the named checks, and ALWAYS restores /repo.
# Prints one line per check: "<ID> <tier> exit=<code>" followed by the first VIOLATION lines.
patch=$1; tier=$2; shift 2
cd /repo || exit 2
if [ -n "$(git status --porcelain -- src Cargo.toml)" ]; then echo "/repo is dirty; refusing"; exit 2; fi
trap 'git -C /repo checkout -- . ; git -C /repo clean -fdq -- src tests 2>/dev/null' EXIT
git apply "$patch" || { echo "patch does not apply"; exit 2; }
for id in "$@"; do
  out=$(/verif/check "$id" "$tier" 2>&1); code=$?
  echo "== $id $tier exit=$code"
  echo "$out" | grep -E "^(VIOLATION|  \[|MACHINERY|BUILD FAILED|check )" | head -6 | cut -c1-400
done
