#!/bin/bash
# usage: try_patch.sh <patch.diff> <tier> <ID> [<ID> ...]
# Runs the named checks against a SCRATCH worktree of /repo with the patch applied; /repo itself and
# /verif/evidence are never touched.  The scratch harness copy lives in /tmp/vt (its repo_link points
# at the scratch worktree /tmp/wt/try); both are disposable.
patch=$(readlink -f "$1"); tier=$2; shift 2
wt=/tmp/wt/try; vt=/tmp/vt
head=$(git -C /repo rev-parse HEAD)
if [ ! -d "$wt" ]; then git -C /repo worktree add -q --detach "$wt" "$head" || exit 2; fi
git -C "$wt" checkout -q --detach "$head" 2>/dev/null; git -C "$wt" checkout -- . ; git -C "$wt" clean -fdq -- src tests 2>/dev/null
mkdir -p "$vt"
rsync -a --delete --exclude target --exclude evidence --exclude replays /verif/mc /verif/check /verif/known_findings.json /verif/data "$vt/" || exit 2
ln -sfn "$wt" "$vt/repo_link"
git -C "$wt" apply "$patch" || { echo "patch does not apply"; exit 2; }
for id in "$@"; do
  out=$("$vt/check" "$id" "$tier" 2>&1); code=$?
  echo "== $id $tier exit=$code"
  echo "$out" | grep -E "^(VIOLATION|  \[|MACHINERY|BUILD FAILED|check |KNOWN)" | head -6 | cut -c1-400
done
git -C "$wt" checkout -- . ; git -C "$wt" clean -fdq -- src tests 2>/dev/null
