#!/usr/bin/env python3
"""Generates /verif/MANIFEST.json from the table below (one entry per claimed property)."""
import json, subprocess

HOOK_COMMITS = subprocess.run(
    ["git", "-C", "/repo", "log", "--format=%h %s", "--grep=^verif hook"],
    capture_output=True, text=True).stdout.strip().splitlines()

G1 = "bounded exhaustive enumeration of inputs with a lock-step reference model (every case of a finite alphabet up to the stated bound is executed on the real crate; nothing is sampled)"
G2 = "explicit-state search (stateright BFS to a fixpoint / depth bound; every transition executes the real operation) plus exhaustive history DFS"
G3 = "deviation-bounded exhaustive exploration of the nondeterministic choice point (HashSet iteration order in simplify) through a cfg hook"

CHECKS = {
 "C01": dict(tech="bounded exhaustive enumeration of texts: all labeled symbols, all 1-token edits (deviation bound 1, 2 on the smallest), all token soups up to a length; oracle = parse contract + structural round trip",
   text="Every labeled complete symbol of dimension 1-3 up to the size bound is printed, parsed and compared; every single-token deviation of those texts and every short token string is parsed under a panic/abort/time-out guard and checked against the parse contract. Exhaustive within the bounds; the size bound is small but every parser defect found so far shows at size <= 2. Added in the build round: huge degrees at the integer-width boundaries, mid-size generator representatives in dimensions 2-4, disjoint unions.",
   note="Trusts: the harness reference model R1 (orbit walks). Texts come from the crate's own Display, which is what the property is about. Worker subprocesses under ulimit -v so aborts are attributed to the announced case.", ref="3/C01"),
 "C02": dict(tech="bounded exhaustive enumeration of all labeled D-sets/D-symbols (dim 1-3, size <= 3/4) x every query argument incl. out-of-range; lock-step reference model by orbit walks",
   text="All tuples of involutions up to the size bound in every representation, every (i,j,d) query including out-of-range and non-adjacent pairs, every index subset x seed sequence for orbits/traversals, compared with definitions computed by orbit walks. Exhaustive in the bound. Added: the huge-degree family in all four representations; incomplete partial sets (size <= 3-4) with a full graph oracle (undefined operation = no edge).",
   note="Trusts R1 only. Objects are built through the crate's public constructors and re-read through op/v before use.", ref="3/C02"),
 "C03": dict(tech="bounded exhaustive enumeration of all labeled connected symbols (all renumberings included) against an n!-relabeling isomorphism oracle",
   text="For every labeled connected symbol in the bound: canonical form is isomorphic to the input (class key by all n! relabelings), idempotent, and equal to the canonical form of the class representative, which together give 'equal forms iff isomorphic'. Larger harness-built covers (to 80 chambers) under systematic renumberings. Added: mid-size generator representatives (to 10-16 chambers) under 9 renumberings, Coxeter coset symbols to 384/1152 chambers, degrees of 2^62 and more under all renumberings; uniform degrees, single deviations and fully branched assignments on the mid-size family; every rotation of the chamber numbers one size further (3D 8 chambers, 2D 11).",
   note="Trusts R1 (two independent class-key algorithms cross-checked).", ref="3/C03"),
 "C04": dict(tech="bounded exhaustive enumeration of labeled connected symbols; oracles: Moore partition refinement, brute-force verified morphisms from every base image",
   text="Minimal image size/quotient/minimality against the coarsest congruence by Moore refinement, automorphism list against verified brute force, morphism(s,t,e) for every base image into self, minimal image, harness-built 2-sheeted covers (both directions) and all symbols of size <= 2; covers share the minimal image. Added: mid-size generator representatives and Coxeter coset symbols with numbering independence, small targets of other dimensions; 3D to 8 chambers with spread assignments and uniform degrees with <= 2 doubled orbits.",
   note="Trusts R1. crate covers() only supplies extra covers, each verified to be a covering before use.", ref="3/C04"),
 "C06": dict(tech="bounded exhaustive enumeration: brute force over ALL commuting involution tuples vs generator output, per (dimension, max size) configuration",
   text="For every (dim, max_size) up to the bound the complete set of isomorphism-class keys of connected commuting involution tuples is computed by brute force and must equal the generator's output key set, without duplicates. Added: configurations beyond the oracle (dimensions 1-5, to 14/11/10/9/8 chambers at quick) checked for validity, pairwise non-isomorphism and closure under local moves; streamed validity / irredundancy to 20/15/12/11/10/9/8 chambers in dimensions 1-7.",
   note="Trusts the brute-force enumerator and BFS class key (cross-checked against the all-permutations key for n <= 5).", ref="3/C06"),
 "C10": dict(tech="explicit-state search with stateright over real FreeWord values (histories to depth 5/6) + exhaustive one-step layer from every raw letter sequence; reference = naive free reduction",
   text="One step of every operation from every raw word of length <= 4, all histories of the mixed-operation menu to depth 5/6 as an explicit-state BFS on the observed letter vector, group and order axioms on all small triples, relator representative/permutations on all words up to length 6/8. Added: relators streamed to length 10/8/6 (14/10/8), letters at the integer-width boundaries.",
   note="Trusts the fixpoint-cancellation reference R3. stateright paths are re-validated by a plain replay before being reported.", ref="3/C10"),
 "C11": dict(tech="bounded exhaustive enumeration of (presentation, subgroup) pairs against a reference HLT Todd-Coxeter and known group orders",
   text="Named finite groups x all sets of <= 2 words of length <= 3, and every 2-/3-generator presentation built from short cyclically reduced relators on which the reference enumeration finishes, x short subgroup generating sets; row count, permutation/inverse/transitivity/relator/subgroup-generator clauses and representatives checked on each. Added: subgroup generators to length 5/6 on the named groups, the empty word as generator and relator, every written form (rotations, inverses, conjugates) of every relator of the named groups.",
   note="Trusts the reference Todd-Coxeter (validated against 17 known orders at start-up) and |G| = index * |H| cross-check.", ref="3/C11"),
 "C12": dict(tech="bounded exhaustive enumeration of presentations x index bounds against a homomorphism-counting oracle ((1/n!) sum over transitive homs into S_n of |Aut|)",
   text="Named finite/infinite groups, every small presentation on 2 and 3 generators (including length-1 relators and the empty presentation), cyclic groups and D-symbol fundamental groups, every index bound k' <= k: tables valid, pairwise inequivalent, count per index equals the oracle. Added: 24 named groups against an independent backtracking low-index search (R5b) at index 4-16 (6-18), the empty relator, every written form (not one per rotation class) of every cyclically reduced relator of length <= 5/6.",
   note="Trusts the class counter (validated against published counts for F2, Z^2, Z^3 at start-up).", ref="3/C12"),
 "C13": dict(tech="bounded exhaustive enumeration of (group, transitive action, base row) against reference Todd-Coxeter, Reidemeister-Schreier, permutation-group closure and product-action orbits",
   text="All actions up to an index bound from two supplies, every base row: generators fix the base and generate the full stabiliser (index by reference Todd-Coxeter), presentation has the right order (finite) or the abelianisation and low-index profile of an independent Reidemeister-Schreier presentation (infinite); core and intersection tables against closure/orbit computations and all words of length <= 4. Added: groups with more than 2^16 and 2^17 elements for the core table (S_9, A_9), the empty relator.",
   note="Trusts R4, R5, R6, R7. coset_tables is one of two supplies of actions; each supplied action is validated before use.", ref="3/C13"),
 "C14": dict(tech="bounded exhaustive enumeration of integer relation matrices + explicit-state BFS over unimodular operations from diagonal seeds; oracle = determinantal divisors",
   text="Every exponent matrix in the listed shape/entry bounds with 9 metamorphic variants each; every matrix reachable from diagonal seeds by <= d elementary unimodular operations must keep the seed's invariants; D-symbol fundamental-group presentations. Added: moderate entries (to 1001), dense matrices of 5-8 (10) generators.",
   note="Trusts R6 (gcd of minors; i128 elimination with overflow detection for larger shapes, cross-checked on small ones).", ref="3/C14"),
 "C05": dict(tech="bounded exhaustive enumeration of connected symbols x sheet bounds; covering maps searched by the reference model, cover counts against a homomorphism-counting oracle on the textbook pi1 presentation",
   text="Every labeled symbol (dim 2 size <= 3, dim 3 size <= 2) and class representatives above that, every sheet bound k <= 3/4: each returned cover is valid, connected and admits a verified covering map with equal fibres; oriented cover has 1/2 sheets; universal cover has |G| sheets (reference Todd-Coxeter); number of covers per sheet number = number of subgroup classes (class counter on the textbook presentation, independent of the crate's group code); pairwise inequivalence; subgroup_cover for all short word sets. Added: cover counts by R5b where the class counter is too expensive; covers with up to 10/12 sheets of 25 tiny symbols with degrees to 12.",
   note="Trusts R1, R4, R5, R11. Inequivalence uses the documented sheet layout only after verifying it is a covering map.", ref="3/C05"),
 "C07": dict(tech="bounded exhaustive enumeration of (D-set, geometry); oracle = depth-first enumeration of ALL branching vectors up to a provably sufficient bound, modulo the brute-force automorphism group",
   text="Every D-set from DSets(2, <= 8/11) and every relabeling of those of size <= 4, all four geometries: outputs on the input set, complete, degree >= 3, right curvature sign, consecutively numbered, and in bijection with the oracle's classes of euclidean / minimally hyperbolic / good spherical branching vectors; 'all' is the disjoint union. Added: sweep to 16/18 chambers (streamed), flag D-sets of the regular maps to 48/120 chambers.",
   note="Trusts R1 and the definition-based orbifold computation; the list of good spherical orbifolds is copied from the statement's fixed list. DSets supplies the D-sets (C06).", ref="3/C07"),
 "C08": dict(tech="bounded exhaustive enumeration of labeled 2D symbols x branching vectors over {1,2,3,4,5,11}; oracles: curvature from the definition, Conway-symbol parser for Gauss-Bonnet, definition-based orbifold for the predicates",
   text="All labeled connected 2D symbols of size <= 4 (every renumbering) and class representatives of size 5 (7): curvature definition, Gauss-Bonnet through the parsed orbifold symbol, invariance under renumbering and dualisation (corner lists up to rotation and reversal), curvature of covers = sheets x curvature (harness-built 2-sheeted covers, and whatever oriented_cover / covers(s, 3) return, sheet number = size ratio), the three predicates. Added: degree boundaries of the symbol notation, 2D Coxeter coset symbols and mid-size representatives under renumbering, mirror polygons with pairwise coprime corner orders.",
   note="Trusts R1, R2. Harness-built covers are verified coverings; crate-built covers are taken at their word (whether they are coverings is C05's clause).", ref="3/C08"),
 "C09": dict(tech="bounded exhaustive enumeration of symbols; structural clauses read off the result, group clauses against a textbook presentation via invariant factors, subgroup class counts, reference Todd-Coxeter orders and a verified base-point-change isomorphism",
   text="All labeled 2D/3D symbols of size <= 3, their harness-built 2-sheeted covers (size <= 2 bases), all DSyms outputs over DSets(2, <= 6/8): generator/facet/inverse/reducedness/cone clauses; H1, class counts to index 3/4, finite order (4/K for good spherical), and for finite groups a verified isomorphism with the textbook group. Added: degenerate degrees on every generator D-set, larger 3D symbols (corpus, prisms, Coxeter), class counts to index 5/6 by R5b.",
   note="Trusts R3, R4, R5, R6, R11. Class counts are skipped (and counted) when (n!)^generators > 2e6.", ref="3/C09"),
 "C15": dict(tech="bounded exhaustive enumeration of euclidean 2D symbols and admissible 3D symbols (with all relabelings and duals) plus the corpus; cover clauses by the reference model, H1 by textbook presentation + invariant factors",
   text="Every curvature-0 2D symbol over all D-set classes of size <= 5/7 and branching 1..6; every admissible 3D symbol of size <= 3/4 under every relabeling and its dual; the 20 corpus symbols: existence, covering, orientedness, branch-freeness, H1 = Z^2 / Z^3, admissible sheet number, invariance of existence and sheet number, corpus found. Added: covers (4/5 sheets, 12/15 chambers) of the small symbols that have a cover, prisms over all euclidean 2D symbols of size <= 4/5, relabelings of the corpus symbols of 4-6 chambers and of their duals.",
   note="Trusts R1, R6, R11 and the definition-based sphericity test for tiles and vertex figures.", ref="3/C15"),
 "C16": dict(tech="bounded exhaustive enumeration of inputs x deviation-bounded exhaustive exploration (bound 1; 2 on small inputs at the thorough tier) of the hash-order choice point in simplify through a cfg hook; every schedule replayed for determinism",
   text="Pseudo-toroidal covers of all admissible symbols of size <= 3/4 and of the corpus, Coxeter manifold tilings and manifold covers with finite group, under systematic renumberings; for every explored schedule: result validity as a manifold tiling, preserved H1 and subgroup profile where the statement demands it, reducedness on pseudo-toroidal covers, and one minimal-quotient class for the corpus across renumberings and schedules. Added: manifold covers of small symbols with finite group (lens spaces), duals of the corpus, 2-sheeted covers of the corpus's pseudo-toroidal covers (to 576/1200+ chambers), the recorded 192-chamber numbering and six affine renumberings of the same 3-torus cover (a repaired defect: simplify lost the torus), affine renumberings of every corpus and dual cover.",
   note="Trusts R1, R6, R11, the choice hook (sorted candidates, every candidate reachable by some hash order) and, for the index-2/3 subgroup profile, the crate's presentation + low-index enumeration (C09/C12).", ref="3/C16"),
 "C17": dict(tech="bounded exhaustive enumeration of admissible 3D symbols x deviation-bounded exhaustive exploration (bound 1) of the simplify choice point; verdict invariance over relabelings, dual and verified covers; independent re-derivation of every yes",
   text="Every admissible 3D symbol of size <= 3/4 and the corpus: a verdict under every schedule with <= 1 deviation, equal verdict class for all relabelings and the dual, no yes/no contradiction with any verified cover of <= 2/3 sheets, certificate of every yes (finite oriented branch-free cover, H1 = Z^3, 7/13 subgroup classes), corpus = yes. Added: covers with up to 4/6 sheets above every yes, prisms, breadth-first search down the subgroup lattice below the corpus, relabelings of the corpus symbols of 4-6 chambers and of their duals, call sequences of large symbols (120-576 chambers) within one process.",
   note="Cannot re-derive the completeness of the space-group invariant table. Trusts R1, R6, R11; the 7/13 counts use the crate's low-index enumeration (C12).", ref="3/C17"),
 "C18": dict(tech="bounded exhaustive enumeration of integer matrices (all shapes <= 3x3 over [-2,2], sparse 4x4, big-entry families, unimodular walk to 6x6) x right-hand sides x 8 backends; oracle = exact BigInt arithmetic with minors / Laplace / Cramer",
   text="rank, determinant, null space, inverse and solve for i64, BigRational and six prime fields through VecMatrix and (by hook) the const-generic Matrix; residue-class field axioms and canonical representatives incl. negative multiples of P; p-adic solver against Cramer's rule. Added: multi-column p-adic right-hand sides, machine integers with entries to 10^9 / 2^61 on the shapes that cannot overflow, two recorded dense inputs (known finding: i64 overflow).",
   note="Trusts num-bigint/num-rational arithmetic and the reference algorithms (different from elimination). i64 solve is only required to be sound.", ref="3/C18"),
 "C19": dict(tech="bounded exhaustive enumeration of graphs: all digraphs on <= 4 vertices (+5 vertices <= 6 edges; thorough all), all forward digraphs / undirected graphs on 6 (7) vertices, every ordered source-sink pair, four entry points; oracle = subset enumeration",
   text="Cut separates, has minimum size (minimum over all vertex subsets), no repeats, avoids source and sink; inside + source = reachable set. The forward/undirected family is there because flow cancellation is never exercised on <= 4 vertices. Added: 7-vertex graphs with 9 edges, host graphs of 8-10 vertices, layered networks, route networks of 14 vertices with a Menger-certificate oracle, recorded simplify networks.",
   note="Trusts the subset-enumeration oracle. Vertices that touch no edge are outside the domain.", ref="3/C19"),
 "C20": dict(tech="explicit-state model checking with stateright: BFS to the fixpoint over real Partition/IntPartition instances keyed by a snapshot of their internal forests, plus exhaustive DFS of all histories to depth 5/6 observed only through the public API",
   text="Complete reachable state space of two instances (original + clone) over a 3-element (thorough: 4-element) universe for both partition types in lock-step with a naive partition; state and transition predicates for every clause of the statement; hook-free history enumeration as a cross-check. Added: all union-only sequences over 6 elements; parallel BFS over the internal forests of both structures over 8 elements (2.08 M states); classes() asked before any find with repeated and never-seen elements on a separate replay of every history.",
   note="Trusts the naive reference partition; fixpoint mode trusts the cfg-gated verif_snapshot hook to expose the internal arrays (the history mode does not use it).", ref="3/C20"),
}

props = [json.loads(l) for l in open('/verif/properties.jsonl')]
checks = []
na = []
for p in props:
    i = p['id']
    if i in CHECKS:
        c = CHECKS[i]
        checks.append({
            "property_id": i,
            "quick_cmd": f"./check {i} quick",
            "thorough_cmd": f"./check {i} thorough",
            "evidence_file": f"/verif/evidence/{i}.json",
            "replay_cmd_template": f"./check {i} --replay {{path}}",
            "engine": "dsym_mc",
            "level_claimed": {"category": "model_checking", "text": c['text'], "design_ref": c['ref']},
            "level_note": c['note'],
            "technique": c['tech'],
        })
    else:
        na.append({"property_id": i, "reason": "check not built yet in this round (planned, see DESIGN.md section 3); not a statement that model checking cannot apply"})

m = {
 "version": 1,
 "setup_cmd": "cd /verif/mc && CARGO_NET_OFFLINE=true CARGO_TARGET_DIR=/verif/target cargo build --release --offline",
 "hooks": {
   "guard": "--cfg rust_dsymbols_verif",
   "enable": "RUSTFLAGS/--cfg rust_dsymbols_verif set in /verif/mc/.cargo/config.toml ([build] rustflags); the harness crate depends on /repo by path, so every ./check rebuilds /repo's working tree with the hooks on",
   "baseline_off_cmd": "cd /repo && cargo test --workspace --no-fail-fast --offline",
   "source_commits": [l.split()[0] for l in HOOK_COMMITS],
   "add_only": True,
 },
 "engines": [
   {"name": "dsym_mc", "path": "/verif/mc", "serves_properties": sorted(CHECKS.keys()),
    "kind_free_text": "Rust harness: G1 sharded bounded-exhaustive enumeration runner with lock-step reference models (16 worker subprocesses, watchdog, abort attribution, replay files); G2 explicit-state search with stateright 0.31 over real objects; G3 deviation-bounded exploration of the simplify choice point"},
 ],
 "checks": checks,
 "notes": "Every check: exit 0 = held on everything explored, 1 = VIOLATION line(s) with a replay file, 2 = machinery failure (no verdict). Known findings: /verif/known_findings.json (entries with status 'fixed' suppress nothing; the two entries with status 'known' - two dense i64 matrices for C18 - make the check print a KNOWN-FINDING line and exit 0; the file is never written at run time). VERIF_SEED only permutes which worker runs which case.",
 "not_applicable": na,
}
json.dump(m, open('/verif/MANIFEST.json', 'w'), indent=1)
print("checks:", len(checks), "not claimed:", len(na))
