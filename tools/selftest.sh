#!/bin/bash
# usage: selftest.sh [tier]   (default quick)
# For every seeded change under /verif/seeded/<name>/ (patch.diff + meta.json naming the property and
# the checks expected to catch it), applies it to /repo, runs the listed checks, restores /repo, and
# reports caught / MISSED.  try_patch.sh works on a scratch worktree and a scratch copy of the harness,
# so neither /repo nor /verif/evidence is touched.
tier=${1:-quick}
cd /verif || exit 2
:
fail=0
for d in seeded/*/; do
  name=$(basename "$d")
  [ -f "$d/patch.diff" ] || continue
  ids=$(python3 -c "import json,sys; m=json.load(open('$d/meta.json')); print(' '.join(m.get('caught_by_$tier', m.get('caught_by_quick', []))))")
  neg=$(python3 -c "import json,sys; m=json.load(open('$d/meta.json')); print('1' if m.get('negative_control') else '0')")
  [ -z "$ids" ] && { echo "$name: no check listed for tier $tier (skipped)"; continue; }
  res=$(tools/try_patch.sh "/verif/${d%/}/patch.diff" "$tier" $ids)
  for id in $ids; do
    code=$(echo "$res" | grep "^== $id $tier" | sed 's/.*exit=//')
    if [ "$neg" = "1" ]; then
      if [ "$code" = "0" ]; then echo "$name: $id stays silent (negative control) OK"; else echo "$name: $id exit=$code on a negative control: FALSE ALARM"; fail=1; fi
    else
      if [ "$code" = "1" ]; then echo "$name: $id caught"; else echo "$name: $id exit=$code MISSED"; fail=1; fi
    fi
  done
done
:
exit $fail
