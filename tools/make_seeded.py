#!/usr/bin/env python3
"""Creates /verif/seeded/<name>/{patch.diff,meta.json,demo.*} for the hand-written seeded changes below.

Each change is applied in a scratch worktree of /repo (never in /repo itself), the repository's own
suite is run there (guard off) and must stay green, and the diff is stored.  Which checks catch it is
filled in by tools/selftest.sh / by hand in meta.json ("caught_by_quick").
usage: make_seeded.py [name ...]   (default: all that do not exist yet)
"""
import json, os, subprocess, sys, shutil

WT = "/tmp/wt/mine"

# name: (property, file, old, new, needs, checks expected to catch, negative_control)
M = {
 "own-C02-simpledsym-r-swapped": ("C02", "src/dsyms.rs", None, None,
   "a SimpleDSym queried at a NON-adjacent index pair (|i-j| > 1); all tests use adjacent pairs", ["C02"], False),
 "own-C04-minimal-image-skips-last": ("C04", "src/derived.rs",
   "        let p = (2..=ds.size())\n            .fold(Partition::new()", "        let p = (2..ds.size())\n            .fold(Partition::new()",
   "a non-minimal symbol in which only the LAST chamber is equivalent to chamber 1", ["C04"], False),
 "own-C06-max-e": ("C06", "src/generators/dset_generators.rs",
   "let max_e = (ds.size() + 1).min(self.max_size);", "let max_e = (ds.size() + 1).min(self.max_size - 1);",
   "asking for sets of exactly the maximal size", ["C06"], False),
 "own-C06-canon-le": ("C06", "src/generators/dset_generators.rs",
   "            if diff < 0 {\n                return false;", "            if diff <= 0 && d > 2 {\n                return false;",
   "size >= 3: a candidate whose renumbering from a later start chamber ties", ["C06"], False),
 "own-C07-branching-to-6": ("C07", "src/generators/dsym_generators.rs", "for v in vmin..=7 {", "for v in vmin..=6 {",
   "a D-set that admits a (2,3,7)-type minimally hyperbolic or v = 7 assignment", ["C07"], False),
 "own-C07-good-list-4star": ("C07", "src/generators/dsym_generators.rs", '"*44", "*33", "*22", "4*",', '"*44", "*33", "*22",',
   "a D-set with a spherical assignment whose orbifold is 4*", ["C07"], False),
 "own-C08-cones-gt-2": ("C08", "src/delaney2d.rs", ".filter(|(v, c)| *c && *v > 1)", ".filter(|(v, c)| *c && *v > 2)",
   "a symbol with a cone point of order exactly 2", ["C08"], False),
 "own-C12-canonical-start-2": ("C12", "src/fpgroups/cosets.rs",
   "    for start in 1..table.len() {\n        if compare_renumbered_from(table, start) < 0 {", "    for start in 2..table.len() {\n        if compare_renumbered_from(table, start) < 0 {",
   "a presentation with a table whose renumbering from row 1 is smaller (duplicate classes)", ["C12"], False),
 "own-C13-stabilizer-tree-root": ("C13", "src/fpgroups/stabilizer.rs",
   "    for (pt, gen) in spanning_tree(base_point, ct) {", "    for (pt, gen) in spanning_tree(0, ct) {",
   "a base row other than 0 (all callers in the crate use 0)", ["C13"], False),
 "own-C13-intersection-inverse": ("C13", "src/fpgroups/cosets.rs",
   "            let bg = tb.get(b, g).unwrap();\n            if o2n[ag][bg] < 0 {", "            let bg = tb.get(b, -g).unwrap();\n            if o2n[ag][bg] < 0 {",
   "a second table in which some generator is not an involution", ["C13"], False),
 "own-C14-keep-ones": ("C14", "src/fpgroups/invariants.rs", "        .filter(|x| *x != 1)\n", "",
   "a relation matrix with an invariant factor 1 (any generator that is killed)", ["C14"], False),
 "own-C14-no-divisibility-chain": ("C14", "src/fpgroups/invariants.rs", "            if a != 0 && b % a != 0 {", "            if a != 0 && b % a != 0 && false {",
   "diagonal entries that do not divide each other, e.g. [[2,-2],[-2,-3]]", ["C14"], False),
 "own-C16-negative-control-cut-key": ("C16", "src/simplify.rs",
   "                    if key.0 < 0 {\n                        cuts.push((key, (d, ordered)));", "                    if key.0 <= 0 {\n                        cuts.push((key, (d, ordered)));",
   "NEGATIVE CONTROL: more cuts are tried, results stay valid manifolds with the same invariants; the property still holds", ["C16"], True),
 "own-C01-negative-control-unused-degrees": ("C01", "src/dsyms.rs",
   "                if k < ms_i.len() {\n                    return Err(\"unused data in degree spec\".into());\n                }", "",
   "NEGATIVE CONTROL: surplus degree entries are ignored instead of rejected; every accepted symbol is still valid and round-trips", ["C01"], True),
}


def run(cmd, **kw):
    return subprocess.run(cmd, shell=True, capture_output=True, text=True, **kw)


def main():
    names = sys.argv[1:] or [n for n in M if not os.path.exists(f"/verif/seeded/{n}/patch.diff")]
    if not names:
        print("nothing to do")
        return
    if not os.path.exists(WT):
        r = run(f"git -C /repo worktree add -q --detach {WT} HEAD")
        assert r.returncode == 0, r.stderr
    for name in names:
        prop, path, old, new, needs, caught, neg = M[name]
        run(f"git -C {WT} checkout -q --detach $(git -C /repo rev-parse HEAD) && git -C {WT} checkout -- .")
        p = f"{WT}/{path}"
        s = open(p).read()
        if name == "own-C02-simpledsym-r-swapped":
            i = s.index('impl DSet for SimpleDSym')
            j = s.index('} else if self.op(i, d) == self.op(j, d) {\n            Some(1)\n        } else {\n            Some(2)', i)
            s = s[:j] + s[j:].replace('Some(1)\n        } else {\n            Some(2)', 'Some(2)\n        } else {\n            Some(1)', 1)
        else:
            assert s.count(old) == 1, (name, s.count(old))
            s = s.replace(old, new)
        open(p, 'w').write(s)
        t = run(f"cd {WT} && CARGO_TARGET_DIR={WT}/target CARGO_NET_OFFLINE=true cargo test --workspace --no-fail-fast --offline 2>&1 | grep -E '^test result' | head -1")
        green = '168 passed; 0 failed' in t.stdout
        print(name, 'suite:', t.stdout.strip())
        if not green:
            print('  NOT KEPT (suite is red)')
            continue
        d = f"/verif/seeded/{name}"
        os.makedirs(d, exist_ok=True)
        diff = run(f"git -C {WT} diff -- src").stdout
        open(f"{d}/patch.diff", 'w').write(diff)
        meta = {
            "property": prop,
            "origin": "hand-written by the framework author (design-round mutation table)",
            "what": needs,
            "negative_control": neg,
            "suite_with_change": t.stdout.strip(),
            "ran": [f"cargo test --workspace --no-fail-fast --offline in a scratch worktree with the patch: {t.stdout.strip()}",
                    "tools/selftest.sh quick (applies patch.diff to /repo, runs the listed checks, restores /repo)"],
            "caught_by_quick": caught,
        }
        json.dump(meta, open(f"{d}/meta.json", 'w'), indent=1)
    run(f"git -C {WT} checkout -- .")


main()
