#!/usr/bin/env python3
"""Verifies a sub-agent's seeded change and files it under /verif/seeded/<name>/.

usage: ingest_agent.py <outdir> <name> <property> [check ids ...]
  <outdir> holds patch.diff, demo_*.rs, notes.md written by the agent (which saw only the property text).
Steps (all in the scratch worktree /tmp/wt/mine, never in /repo):
  1. apply patch.diff, run the repository suite -> must be 168 passed
  2. run the demo with the patch -> must fail; without the patch -> must pass
  3. apply the patch to /repo via tools/try_patch.sh, run the named checks (quick), restore /repo
  4. write meta.json with everything observed
"""
import glob, json, os, shutil, subprocess, sys

WT = "/tmp/wt/mine"


def run(cmd):
    return subprocess.run(cmd, shell=True, capture_output=True, text=True)


def main():
    out, name, prop = sys.argv[1:4]
    checks = sys.argv[4:] or [prop]
    if not os.path.exists(WT):
        assert run(f"git -C /repo worktree add -q --detach {WT} HEAD").returncode == 0
    run(f"git -C {WT} checkout -q --detach $(git -C /repo rev-parse HEAD); git -C {WT} checkout -- . ; rm -rf {WT}/tests")
    patch = f"{out}/patch.diff"
    demos = sorted(glob.glob(f"{out}/demo*.rs"))
    assert os.path.exists(patch) and demos, "missing deliverables"
    a = run(f"git -C {WT} apply {patch}")
    assert a.returncode == 0, a.stderr
    env = f"cd {WT} && CARGO_TARGET_DIR={WT}/target CARGO_NET_OFFLINE=true"
    suite = run(f"{env} cargo test --workspace --no-fail-fast --offline 2>&1 | grep -E '^test result' | head -1").stdout.strip()
    os.makedirs(f"{WT}/tests", exist_ok=True)
    for d in demos:
        shutil.copy(d, f"{WT}/tests/")
    tnames = [os.path.basename(d)[:-3] for d in demos]
    with_patch = [run(f"{env} cargo test --offline --test {t} 2>&1 | grep -E '^test result' | tail -1").stdout.strip() for t in tnames]
    run(f"git -C {WT} checkout -- src")
    without = [run(f"{env} cargo test --offline --test {t} 2>&1 | grep -E '^test result' | tail -1").stdout.strip() for t in tnames]
    run(f"rm -rf {WT}/tests; git -C {WT} checkout -- .")
    ok_suite = '168 passed; 0 failed' in suite
    ok_demo = all('FAILED' in w or 'failed' in w and ' 0 failed' not in w for w in with_patch) and all(' 0 failed' in w and 'ok' in w for w in without)
    print("suite with change:", suite)
    print("demo with change:", with_patch)
    print("demo without change:", without)
    res = run(f"/verif/tools/try_patch.sh {patch} quick {' '.join(checks)}").stdout
    print(res)
    caught = [c for c in checks if f"== {c} quick exit=1" in res]
    d = f"/verif/seeded/{name}"
    os.makedirs(d, exist_ok=True)
    shutil.copy(patch, f"{d}/patch.diff")
    for x in demos:
        shutil.copy(x, d)
    if os.path.exists(f"{out}/notes.md"):
        shutil.copy(f"{out}/notes.md", f"{d}/agent_notes.md")
    meta = {
        "property": prop,
        "origin": "fresh sub-agent that was given only the property text and its own scratch worktree (nothing from /verif)",
        "what": open(f"{out}/notes.md").read()[:1500] if os.path.exists(f"{out}/notes.md") else "",
        "negative_control": False,
        "confirmed_by_me": {"suite_with_change": suite, "demo_with_change": with_patch, "demo_without_change": without,
                            "suite_green": ok_suite, "demo_discriminates": ok_demo},
        "ran": ["cargo test --workspace --no-fail-fast --offline (scratch worktree, patch applied)", "cargo test --offline --test <demo> with and without the patch",
                f"tools/try_patch.sh patch.diff quick {' '.join(checks)}"],
        "checks_run_quick": checks,
        "caught_by_quick": caught,
        "kept": bool(ok_suite and ok_demo),
    }
    json.dump(meta, open(f"{d}/meta.json", 'w'), indent=1)
    print("kept:", meta["kept"], "caught_by_quick:", caught)


main()
