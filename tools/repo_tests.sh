#!/bin/bash
# Runs the repository's own test suite (guard OFF) on a given tree (default /repo) and prints the summary line.
# usage: repo_tests.sh [dir]
dir=${1:-/repo}
cd "$dir" || exit 2
export CARGO_NET_OFFLINE=true
out=$(cargo test --workspace --no-fail-fast --offline 2>&1)
echo "$out" | grep -E "^test result|FAILED|failed|panicked|error(\[|:)" | head -20
