#!/bin/bash
# usage: coverage_audit.sh <ID> [<ID> ...]      (maintenance tool, not part of any registered check)
# Builds the harness with the nightly toolchain and -C instrument-coverage, runs the quick tier of the
# named checks, and lists the lines of /repo/src that were NOT executed, per file named in each
# property's anchors.  Build output and profiles live under /tmp/cov (disposable).
set -u
BIN=/root/.rustup/toolchains/nightly-x86_64-unknown-linux-gnu/lib/rustlib/x86_64-unknown-linux-gnu/bin
out=/tmp/cov; mkdir -p $out/prof
cd /verif/mc || exit 2
export CARGO_TARGET_DIR=$out/target CARGO_NET_OFFLINE=true RUST_BACKTRACE=0
RUSTFLAGS="-C instrument-coverage --cfg rust_dsymbols_verif" cargo build --release --offline -q 2>$out/build.log || { tail $out/build.log; exit 2; }
for id in "$@"; do
  rm -f $out/prof/*.profraw
  VERIF_DIR=$out LLVM_PROFILE_FILE="$out/prof/%p-%m.profraw" $out/target/release/dsym_mc $id quick > $out/run_$id.txt 2>&1
  tail -1 $out/run_$id.txt
  $BIN/llvm-profdata merge -sparse $out/prof/*.profraw -o $out/$id.profdata 2>/dev/null
  files=$(python3 -c "
import json
for l in open('/verif/properties.jsonl'):
    p=json.loads(l)
    if p['id']=='$id': print(' '.join('/repo/'+f for f in p['anchors']['files'] if f.endswith('.rs')))")
  for f in $files; do
    echo "--- $id: lines of $f never executed (excluding #[test]/cfg(test) code):"
    $BIN/llvm-cov show $out/target/release/dsym_mc -instr-profile=$out/$id.profdata "$f" --show-line-counts-or-regions 2>/dev/null \
      | python3 /verif/tools/uncovered.py "$f"
  done
done
