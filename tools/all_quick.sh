#!/bin/bash
cd /verif
for id in C01 C02 C03 C04 C05 C06 C07 C08 C09 C10 C11 C12 C13 C14 C15 C16 C17 C18 C19 C20; do
  s=$(date +%s.%N); out=$(./check $id quick 2>&1); c=$?; e=$(date +%s.%N)
  echo "$id exit=$c secs=$(echo "$e - $s" | bc | cut -c1-6) :: $(echo "$out" | grep -E '^check' | sed 's/.*wall=\([0-9.]*s\).*/wall=\1/') $(echo "$out" | grep -E 'VIOLATION|KNOWN-FINDING|MACHINERY|CAP HIT' | head -3 | cut -c1-120 | tr '\n' ' ')"
done
