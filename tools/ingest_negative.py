#!/usr/bin/env python3
"""Files a sub-agent's BEHAVIOUR-PRESERVING change (negative control) under /verif/seeded/<name>/.

usage: ingest_negative.py <outdir> <name> <primary property> <check ids ...>
Steps (scratch worktrees only): apply patch.diff; run the repository suite (some literal-output tests may
fail: recorded); run the agent's own property test check_*.rs with the patch (must pass); run the named
checks (quick) against the patched tree via tools/try_patch.sh; every one must exit 0.
"""
import glob, json, os, shutil, subprocess, sys
WT = "/tmp/wt/mine"
def run(cmd):
    return subprocess.run(cmd, shell=True, capture_output=True, text=True)
out, name, prop = sys.argv[1:4]
checks = sys.argv[4:]
if not os.path.exists(WT):
    assert run(f"git -C /repo worktree add -q --detach {WT} HEAD").returncode == 0
run(f"git -C {WT} checkout -q --detach $(git -C /repo rev-parse HEAD); git -C {WT} checkout -- . ; rm -rf {WT}/tests")
patch = f"{out}/patch.diff"
tests = sorted(glob.glob(f"{out}/check_*.rs"))
a = run(f"git -C {WT} apply {patch}")
assert a.returncode == 0, a.stderr
env = f"cd {WT} && CARGO_TARGET_DIR={WT}/target CARGO_NET_OFFLINE=true"
suite_out = run(f"{env} cargo test --workspace --no-fail-fast --offline 2>&1").stdout
suite = [l for l in suite_out.splitlines() if l.startswith('test result')][:1]
failed = [l.strip() for l in suite_out.splitlines() if l.endswith('FAILED') and l.startswith('test ')]
cfg = run(f"cd {WT} && RUSTFLAGS='--cfg rust_dsymbols_verif' CARGO_TARGET_DIR={WT}/target_verif CARGO_NET_OFFLINE=true cargo build --offline 2>&1 | tail -1").stdout.strip()
os.makedirs(f"{WT}/tests", exist_ok=True)
own = []
for t in tests:
    shutil.copy(t, f"{WT}/tests/")
    tn = os.path.basename(t)[:-3]
    own.append(run(f"{env} cargo test --release --offline --test {tn} 2>&1 | grep -E '^test result' | tail -1").stdout.strip())
run(f"rm -rf {WT}/tests; git -C {WT} checkout -- .")
print("suite with change:", suite, "failing:", failed)
print("cfg build:", cfg)
print("agent's own property test with change:", own)
res = run(f"/verif/tools/try_patch.sh {patch} quick {' '.join(checks)}").stdout
print(res)
silent = [c for c in checks if f"== {c} quick exit=0" in res]
alarms = [c for c in checks if f"== {c} quick exit=1" in res]
broken = [c for c in checks if f"== {c} quick exit=2" in res]
d = f"/verif/seeded/{name}"
os.makedirs(d, exist_ok=True)
shutil.copy(patch, f"{d}/patch.diff")
for x in tests:
    shutil.copy(x, d)
if os.path.exists(f"{out}/notes.md"):
    shutil.copy(f"{out}/notes.md", f"{d}/agent_notes.md")
meta = {"property": prop, "negative_control": True,
        "origin": "fresh sub-agent asked for a CORRECT change that alters incidental output (given only the property text and a scratch worktree)",
        "what": open(f"{out}/notes.md").read()[:1500] if os.path.exists(f"{out}/notes.md") else "",
        "confirmed_by_me": {"suite_with_change": suite, "suite_tests_failing_on_literal_output": failed, "cfg_build": cfg, "agents_property_test_with_change": own},
        "ran": ["cargo test --workspace (scratch worktree, patch applied)", "agent's check_*.rs with the patch", f"tools/try_patch.sh patch.diff quick {' '.join(checks)}"],
        "checks_run_quick": checks, "silent": silent, "false_alarms": alarms, "machinery_failures": broken,
        "caught_by_quick": silent}
json.dump(meta, open(f"{d}/meta.json", 'w'), indent=1)
print("silent:", silent, "FALSE ALARMS:", alarms, "machinery failures:", broken)
