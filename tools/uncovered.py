#!/usr/bin/env python3
"""Reads `llvm-cov show` output on stdin; prints source lines with an execution count of 0 that lie
outside test code (everything from the first `#[cfg(test)]` / `#[test]` to the end of that item is skipped
heuristically: we stop at the first line that starts a test module or test function)."""
import re, sys
path = sys.argv[1]
src = open(path).read().split('\n')
# find where test code begins (first #[cfg(test)] or #[test] at column 0)
cut = len(src)
for i, l in enumerate(src):
    if l.startswith('#[cfg(test)]') or l.startswith('#[test]') or l.startswith('mod test') or l.startswith('mod property_based_tests'):
        cut = i
        break
n = 0
for line in sys.stdin:
    m = re.match(r'\s*(\d+)\|\s*([0-9.kME]+)?\|(.*)', line)
    if not m:
        continue
    ln = int(m.group(1)); cnt = m.group(2); text = m.group(3)
    if ln > cut:
        break
    if cnt == '0':
        print(f"  {ln}: {text.rstrip()[:110]}")
        n += 1
print(f"  ({n} uncovered lines before line {cut})")
