// scratch experiment: how often does simplify return None on affine renumberings of corpus pseudo-toroidal covers?
use dsym_mc::props::common3d::*;
use dsym_mc::refmodel::dsym::*;
use dsym_mc::util::*;
use rust_dsymbols::delaney3d::pseudo_toroidal_cover;
use rust_dsymbols::simplify::simplify;
use rust_dsymbols::dsets::DSet;

fn gcd(a: usize, b: usize) -> usize { if b == 0 { a } else { gcd(b, a % b) } }

fn main() {
    let per: usize = std::env::args().nth(1).and_then(|s| s.parse().ok()).unwrap_or(40);
    let nb: usize = std::env::args().nth(2).and_then(|s| s.parse().ok()).unwrap_or(1);
    let only: Option<String> = std::env::args().nth(3);
    let mut inputs: Vec<(String, RS)> = vec![];
    for (text, s) in corpus() {
        if let Some(o) = &only { if !text.contains(o.as_str()) { continue; } }
        for (tag, b) in [("", s.clone()), ("dual ", s.dual())] {
            if let Some(c) = pseudo_toroidal_cover(&to_partial_dsym(&b)).and_then(|c| from_dsym(&c)) {
                inputs.push((format!("{}{}", tag, text), c));
            }
        }
    }
    eprintln!("{} inputs", inputs.len());
    let mut units: Vec<(usize, usize, usize)> = vec![];
    for (k, (_, c)) in inputs.iter().enumerate() {
        let n = c.n;
        let mut cnt = 0;
        let mut a = 1;
        while cnt < per && a < n {
            if gcd(a, n) == 1 {
                for bb in 0..nb { units.push((k, a, (a * 7 + 3 + bb * 37) % n)); }
                cnt += 1;
            }
            a += 1;
        }
    }
    let units = std::sync::Arc::new(units);
    let inputs = std::sync::Arc::new(inputs);
    let next = std::sync::Arc::new(std::sync::atomic::AtomicUsize::new(0));
    let mut hs = vec![];
    for _ in 0..16 {
        let units = units.clone(); let inputs = inputs.clone(); let next = next.clone();
        hs.push(std::thread::spawn(move || {
            let mut res = vec![];
            loop {
                let i = next.fetch_add(1, std::sync::atomic::Ordering::SeqCst);
                if i >= units.len() { break; }
                let (k, a, b) = units[i];
                let c = &inputs[k].1;
                let n = c.n;
                let p: Vec<usize> = (0..n).map(|d| (a * d + b) % n).collect();
                let t = c.relabel(&p);
                let r = std::panic::catch_unwind(std::panic::AssertUnwindSafe(|| simplify(&to_partial_dsym(&t)).map(|o| o.size())));
                res.push((k, a, b, match r { Err(_) => "panic".to_string(), Ok(None) => "None".to_string(), Ok(Some(n)) => format!("{}", n) }));
            }
            res
        }));
    }
    let mut all = vec![];
    for h in hs { all.extend(h.join().unwrap()); }
    let mut by: std::collections::BTreeMap<usize, std::collections::BTreeMap<String, usize>> = Default::default();
    for (k, _, _, r) in &all { *by.entry(*k).or_default().entry(r.clone()).or_default() += 1; }
    for (k, m) in by { println!("{} ({} chambers): {:?}", inputs[k].0, inputs[k].1.n, m); }
    for (k, a, b, r) in &all { if r == "None" || r == "panic" { println!("BAD {} a={} b={} -> {}", inputs[*k].0, a, b, r); } }
}
