use rust_dsymbols::dsets::DSet;
use rust_dsymbols::generators::dset_generators::DSets;
fn main() {
    let dim: usize = std::env::args().nth(1).unwrap().parse().unwrap();
    let n: usize = std::env::args().nth(2).unwrap().parse().unwrap();
    let t0 = std::time::Instant::now();
    let mut c = 0usize; let mut maxs = 0;
    for d in DSets::new(dim, n) { c += 1; maxs = maxs.max(d.size()); }
    println!("dim {} bound {}: {} sets, {:.1}s", dim, n, c, t0.elapsed().as_secs_f64());
}
