//! G3 — deviation-bounded exhaustive exploration of the nondeterministic choice point.
//!
//! `simplify::network_cut` picks the first element of a `HashSet` that satisfies a
//! predicate; under `--cfg rust_dsymbols_verif` the candidates are sorted and
//! `verif_hooks::choose(n)` decides which one is taken.  A schedule is the list of choices
//! at the successive choice points; points beyond the schedule take choice 0.

use rust_dsymbols::verif_hooks;

#[derive(Clone, Debug)]
pub struct Run<T> {
    pub schedule: Vec<usize>,
    pub trace: Vec<(usize, usize)>,
    pub result: T,
}

pub struct Stats {
    pub runs: u64,
    pub choice_points_max: usize,
    pub alternatives_max: usize,
    pub bound_completed: usize,
    /// the same schedule gave two different RESULTS: the code under test depends on something other than its
    /// input and the owned choice (state kept between calls, an unowned source of nondeterminism); the caller
    /// reports it as a violation of its property (results must not depend on the call history)
    pub result_diverged: Option<Vec<usize>>,
    /// executions are not replayable although results agree (the same schedule gave two different traces, or a
    /// recorded prefix could not be followed: e.g. a cache answers the second call): deviations cannot be
    /// enumerated for this input; only the schedules visited so far count, and the caller records a cap
    pub unreplayable: Option<String>,
}

fn one<T>(f: &dyn Fn() -> T, schedule: &[usize]) -> (Vec<(usize, usize)>, T) {
    verif_hooks::set_schedule(schedule.to_vec());
    let r = f();
    let trace = verif_hooks::take_trace();
    verif_hooks::set_schedule(vec![]);
    (trace, r)
}

/// Runs `f` under every schedule with at most `bound` deviations from "choice 0 everywhere".
/// Every run is executed twice and must reproduce its trace and result exactly; a divergence is never
/// ignored: different results end the exploration with `result_diverged` (a verdict for the caller), different
/// traces or a prefix that cannot be followed end it with `unreplayable` (reduced coverage, recorded as a cap).
/// `visit` is called once per schedule.
pub fn explore<T: PartialEq + std::fmt::Debug>(bound: usize, f: &dyn Fn() -> T, visit: &mut dyn FnMut(&Run<T>)) -> Stats {
    explore_with(bound, 1, f, visit)
}

/// like `explore`; the replay-twice determinism check is applied to every `verify_every`-th schedule (1 = all)
pub fn explore_with<T: PartialEq + std::fmt::Debug>(bound: usize, verify_every: u64, f: &dyn Fn() -> T, visit: &mut dyn FnMut(&Run<T>)) -> Stats {
    let mut stats = Stats { runs: 0, choice_points_max: 0, alternatives_max: 0, bound_completed: bound, result_diverged: None, unreplayable: None };
    // (prefix, deviations used)
    let mut todo: Vec<(Vec<usize>, usize)> = vec![(vec![], 0)];
    while let Some((prefix, used)) = todo.pop() {
        let (trace, result) = one(f, &prefix);
        // the first run of every input is always replayed
        if stats.runs % verify_every.max(1) == 0 {
            let (trace2, result2) = one(f, &prefix);
            if result != result2 {
                stats.result_diverged = Some(prefix.clone());
                stats.runs += 1;
                visit(&Run { schedule: prefix, trace, result });
                stats.bound_completed = 0;
                return stats;
            }
            if trace != trace2 {
                stats.unreplayable = Some(format!("schedule {:?} gave the same result with two different choice traces ({} and {} points)", prefix, trace.len(), trace2.len()));
                stats.runs += 1;
                visit(&Run { schedule: prefix, trace, result });
                stats.bound_completed = 0;
                return stats;
            }
        }
        let follows = (trace.len() >= prefix.len() || prefix.iter().skip(trace.len()).all(|&c| c == 0)) && prefix.iter().enumerate().all(|(k, &c)| k >= trace.len() || trace[k].1 == c);
        if !follows {
            stats.unreplayable = Some(format!("the recorded prefix {:?} could not be followed (execution made {} choices)", prefix, trace.len()));
            stats.bound_completed = 0;
            return stats;
        }
        stats.runs += 1;
        stats.choice_points_max = stats.choice_points_max.max(trace.len());
        stats.alternatives_max = stats.alternatives_max.max(trace.iter().map(|t| t.0).max().unwrap_or(0));
        if used < bound {
            for i in prefix.len()..trace.len() {
                for alt in 1..trace[i].0 {
                    let mut p: Vec<usize> = trace[..i].iter().map(|t| t.1).collect();
                    p.push(alt);
                    todo.push((p, used + 1));
                }
            }
        }
        visit(&Run { schedule: prefix, trace, result });
    }
    stats
}
