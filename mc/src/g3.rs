//! G3 — deviation-bounded exhaustive exploration of the nondeterministic choice point.
//!
//! `simplify::network_cut` picks the first element of a `HashSet` that satisfies a
//! predicate; under `--cfg rust_dsymbols_verif` the candidates are sorted and
//! `verif_hooks::choose(n)` decides which one is taken.  A schedule is the list of choices
//! at the successive choice points; points beyond the schedule take choice 0.

use rust_dsymbols::verif_hooks;

#[derive(Clone, Debug)]
pub struct Run<T> {
    pub schedule: Vec<usize>,
    pub trace: Vec<(usize, usize)>,
    pub result: T,
}

pub struct Stats {
    pub runs: u64,
    pub choice_points_max: usize,
    pub alternatives_max: usize,
    pub bound_completed: usize,
}

fn one<T>(f: &dyn Fn() -> T, schedule: &[usize]) -> (Vec<(usize, usize)>, T) {
    verif_hooks::set_schedule(schedule.to_vec());
    let r = f();
    let trace = verif_hooks::take_trace();
    verif_hooks::set_schedule(vec![]);
    (trace, r)
}

/// Runs `f` under every schedule with at most `bound` deviations from "choice 0 everywhere".
/// Every run is executed twice and must reproduce its trace and result exactly (a
/// divergence is a machinery error: some nondeterminism is not owned).  `visit` is called
/// once per schedule.
pub fn explore<T: PartialEq + std::fmt::Debug>(bound: usize, f: &dyn Fn() -> T, visit: &mut dyn FnMut(&Run<T>)) -> Stats {
    explore_with(bound, 1, f, visit)
}

/// like `explore`; the replay-twice determinism check is applied to every `verify_every`-th schedule (1 = all)
pub fn explore_with<T: PartialEq + std::fmt::Debug>(bound: usize, verify_every: u64, f: &dyn Fn() -> T, visit: &mut dyn FnMut(&Run<T>)) -> Stats {
    let mut stats = Stats { runs: 0, choice_points_max: 0, alternatives_max: 0, bound_completed: bound };
    // (prefix, deviations used)
    let mut todo: Vec<(Vec<usize>, usize)> = vec![(vec![], 0)];
    while let Some((prefix, used)) = todo.pop() {
        let (trace, result) = one(f, &prefix);
        if stats.runs % verify_every.max(1) == 0 {
            let (trace2, result2) = one(f, &prefix);
            assert!(trace == trace2 && result == result2, "G3: the same schedule {:?} gave two different executions: uncontrolled nondeterminism", prefix);
        }
        assert!(trace.len() >= prefix.len() || prefix.iter().skip(trace.len()).all(|&c| c == 0), "G3: schedule {:?} is longer than the execution", prefix);
        for (k, &c) in prefix.iter().enumerate() {
            if k < trace.len() {
                assert_eq!(trace[k].1, c, "G3: schedule diverged at point {}", k);
            }
        }
        stats.runs += 1;
        stats.choice_points_max = stats.choice_points_max.max(trace.len());
        stats.alternatives_max = stats.alternatives_max.max(trace.iter().map(|t| t.0).max().unwrap_or(0));
        if used < bound {
            for i in prefix.len()..trace.len() {
                for alt in 1..trace[i].0 {
                    let mut p: Vec<usize> = trace[..i].iter().map(|t| t.1).collect();
                    p.push(alt);
                    todo.push((p, used + 1));
                }
            }
        }
        visit(&Run { schedule: prefix, trace, result });
    }
    stats
}
