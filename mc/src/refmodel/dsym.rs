//! R1 — reference model of Delaney-Dress sets and symbols as plain tables.
//!
//! Chambers are 0-based here (`0..n`); the crate numbers them `1..=n`.  Everything is
//! computed from the definitions by orbit walks; nothing is cached and nothing from the
//! crate under test is used except in the two conversion functions at the bottom.

use std::collections::{BTreeMap, BTreeSet, VecDeque};

#[derive(Clone, Debug, PartialEq, Eq, PartialOrd, Ord, Hash)]
pub struct RS {
    pub n: usize,
    /// `ops[i][d]`, i in 0..=dim
    pub ops: Vec<Vec<usize>>,
    /// `v[i][d]` = branching number of the (i, i+1)-orbit through d, i in 0..dim
    pub v: Vec<Vec<usize>>,
}

impl RS {
    pub fn dim(&self) -> usize {
        self.ops.len() - 1
    }

    pub fn from_ops(ops: Vec<Vec<usize>>) -> RS {
        let n = ops[0].len();
        let dim = ops.len() - 1;
        RS { n, ops, v: vec![vec![1; n]; dim] }
    }

    /// the 1-based text of the crate's format, computed independently (for messages only)
    pub fn describe(&self) -> String {
        let mut s = format!("n={} ops=", self.n);
        for (i, o) in self.ops.iter().enumerate() {
            if i > 0 {
                s.push('|');
            }
            s.push_str(&o.iter().map(|x| (x + 1).to_string()).collect::<Vec<_>>().join(" "));
        }
        s.push_str(" v=");
        for (i, o) in self.v.iter().enumerate() {
            if i > 0 {
                s.push('|');
            }
            s.push_str(&o.iter().map(|x| x.to_string()).collect::<Vec<_>>().join(" "));
        }
        s
    }

    /// length of the orbit of d under "apply i then j"
    pub fn r(&self, i: usize, j: usize, d: usize) -> usize {
        let mut e = d;
        let mut r = 0;
        loop {
            e = self.ops[j][self.ops[i][e]];
            r += 1;
            if e == d {
                return r;
            }
            assert!(r <= 2 * self.n + 2, "reference model: not a permutation");
        }
    }

    /// branching for an arbitrary index pair, following the crate's documented convention
    /// (v = 1 for i = j; for |i-j| > 1 the value that makes m = 2)
    pub fn v_any(&self, i: usize, j: usize, d: usize) -> usize {
        if i == j {
            1
        } else if j == i + 1 {
            self.v[i][d]
        } else if i == j + 1 {
            self.v[j][d]
        } else {
            2 / self.r(i, j, d).max(1)
        }
    }

    pub fn m(&self, i: usize, j: usize, d: usize) -> usize {
        if i == j {
            1
        } else if j == i + 1 {
            self.r(i, j, d) * self.v[i][d]
        } else if i == j + 1 {
            self.r(i, j, d) * self.v[j][d]
        } else {
            self.r(i, j, d) * self.v_any(i, j, d)
        }
    }

    /// m for the adjacent pair (i, i+1)
    pub fn m_adj(&self, i: usize, d: usize) -> usize {
        self.r(i, i + 1, d) * self.v[i][d]
    }

    pub fn is_involutive(&self) -> bool {
        self.ops.iter().all(|o| o.len() == self.n && (0..self.n).all(|d| o[d] < self.n && o[o[d]] == d))
    }

    pub fn commutes(&self) -> bool {
        let k = self.ops.len();
        (0..k).all(|i| ((i + 2)..k).all(|j| (0..self.n).all(|d| self.ops[i][self.ops[j][d]] == self.ops[j][self.ops[i][d]])))
    }

    /// v constant on (i,i+1)-orbits
    pub fn v_consistent(&self) -> bool {
        (0..self.dim()).all(|i| (0..self.n).all(|d| self.v[i][d] == self.v[i][self.ops[i][d]] && self.v[i][d] == self.v[i][self.ops[i + 1][d]]))
    }

    pub fn component(&self, indices: &[usize], seed: usize) -> Vec<usize> {
        let mut seen = vec![false; self.n];
        let mut st = vec![seed];
        seen[seed] = true;
        while let Some(d) = st.pop() {
            for &i in indices {
                let e = self.ops[i][d];
                if !seen[e] {
                    seen[e] = true;
                    st.push(e);
                }
            }
        }
        (0..self.n).filter(|&d| seen[d]).collect()
    }

    pub fn components(&self, indices: &[usize]) -> Vec<Vec<usize>> {
        let mut seen = vec![false; self.n];
        let mut out = vec![];
        for d in 0..self.n {
            if !seen[d] {
                let c = self.component(indices, d);
                for &e in &c {
                    seen[e] = true;
                }
                out.push(c);
            }
        }
        out
    }

    pub fn all_indices(&self) -> Vec<usize> {
        (0..=self.dim()).collect()
    }

    pub fn is_connected(&self) -> bool {
        self.component(&self.all_indices(), 0).len() == self.n
    }

    pub fn is_loopless(&self) -> bool {
        self.ops.iter().all(|o| (0..self.n).all(|d| o[d] != d))
    }

    /// the graph of non-loop edges is bipartite
    pub fn is_bipartite(&self) -> bool {
        let mut col = vec![0i8; self.n];
        for s in 0..self.n {
            if col[s] != 0 {
                continue;
            }
            col[s] = 1;
            let mut st = vec![s];
            while let Some(d) = st.pop() {
                for o in &self.ops {
                    let e = o[d];
                    if e == d {
                        continue;
                    }
                    if col[e] == 0 {
                        col[e] = -col[d];
                        st.push(e);
                    } else if col[e] == col[d] {
                        return false;
                    }
                }
            }
        }
        true
    }

    pub fn is_oriented(&self) -> bool {
        self.is_loopless() && self.is_bipartite()
    }

    /// new label of chamber d is p[d]
    pub fn relabel(&self, p: &[usize]) -> RS {
        let n = self.n;
        let mut ops = vec![vec![0; n]; self.ops.len()];
        let mut v = vec![vec![0; n]; self.v.len()];
        for i in 0..self.ops.len() {
            for d in 0..n {
                ops[i][p[d]] = p[self.ops[i][d]];
            }
        }
        for i in 0..self.v.len() {
            for d in 0..n {
                v[i][p[d]] = self.v[i][d];
            }
        }
        RS { n, ops, v }
    }

    pub fn dual(&self) -> RS {
        let mut ops = self.ops.clone();
        ops.reverse();
        let mut v = self.v.clone();
        v.reverse();
        RS { n: self.n, ops, v }
    }

    /// key of the isomorphism class: minimum over all n! relabelings (n <= 7 or so)
    pub fn iso_key_all_perms(&self) -> RS {
        perms(self.n).iter().map(|p| self.relabel(p)).min().unwrap()
    }

    /// key of the isomorphism class of a *connected* symbol: minimum over the BFS
    /// numberings from every start chamber (a different algorithm from the one above;
    /// the two are cross-validated where both are feasible)
    pub fn iso_key_bfs(&self) -> RS {
        assert!(self.is_connected());
        (0..self.n).map(|s| self.relabel(&self.bfs_numbering(s))).min().unwrap()
    }

    pub fn bfs_numbering(&self, start: usize) -> Vec<usize> {
        let mut p = vec![usize::MAX; self.n];
        let mut next = 0;
        let mut q = VecDeque::new();
        p[start] = next;
        next += 1;
        q.push_back(start);
        while let Some(d) = q.pop_front() {
            for o in &self.ops {
                let e = o[d];
                if p[e] == usize::MAX {
                    p[e] = next;
                    next += 1;
                    q.push_back(e);
                }
            }
        }
        p
    }

    /// f is an op-commuting, degree-preserving chamber map self -> other
    pub fn is_morphism(&self, other: &RS, f: &[usize]) -> bool {
        if self.dim() != other.dim() || f.len() != self.n {
            return false;
        }
        (0..self.n).all(|d| {
            f[d] < other.n
                && (0..self.ops.len()).all(|i| f[self.ops[i][d]] == other.ops[i][f[d]])
                && (0..self.v.len()).all(|i| self.m_adj(i, d) == other.m_adj(i, f[d]))
        })
    }

    /// the unique candidate map with 0 -> img on a connected symbol, verified in full
    pub fn morphism_from(&self, other: &RS, img: usize) -> Option<Vec<usize>> {
        if self.dim() != other.dim() || img >= other.n {
            return None;
        }
        let mut f = vec![usize::MAX; self.n];
        f[0] = img;
        let mut st = vec![0];
        while let Some(d) = st.pop() {
            for i in 0..self.ops.len() {
                let (di, ei) = (self.ops[i][d], other.ops[i][f[d]]);
                if f[di] == usize::MAX {
                    f[di] = ei;
                    st.push(di);
                } else if f[di] != ei {
                    return None;
                }
            }
        }
        if f.iter().any(|&x| x == usize::MAX) {
            return None; // not connected
        }
        if self.is_morphism(other, &f) {
            Some(f)
        } else {
            None
        }
    }

    pub fn morphisms(&self, other: &RS) -> Vec<Vec<usize>> {
        (0..other.n).filter_map(|img| self.morphism_from(other, img)).collect()
    }

    pub fn automorphisms(&self) -> BTreeSet<Vec<usize>> {
        self.morphisms(self).into_iter().collect()
    }

    /// covering morphism with equal fibres onto `base`; returns the number of sheets
    pub fn covers(&self, base: &RS) -> Option<usize> {
        if self.n % base.n != 0 || !self.is_connected() {
            return None;
        }
        for f in self.morphisms(base) {
            let mut cnt = vec![0usize; base.n];
            for &x in &f {
                cnt[x] += 1;
            }
            if cnt.iter().all(|&c| c == self.n / base.n) {
                return Some(self.n / base.n);
            }
        }
        None
    }

    /// number of classes of the coarsest congruence that respects all degrees (Moore refinement)
    pub fn congruence_classes(&self) -> Vec<usize> {
        let n = self.n;
        let mut cls: Vec<usize> = {
            let mut keys: BTreeMap<Vec<usize>, usize> = BTreeMap::new();
            (0..n)
                .map(|d| {
                    let k: Vec<usize> = (0..self.dim()).map(|i| self.m_adj(i, d)).collect();
                    let l = keys.len();
                    *keys.entry(k).or_insert(l)
                })
                .collect()
        };
        loop {
            let mut keys: BTreeMap<Vec<usize>, usize> = BTreeMap::new();
            let nc: Vec<usize> = (0..n)
                .map(|d| {
                    let mut k = vec![cls[d]];
                    for o in &self.ops {
                        k.push(cls[o[d]]);
                    }
                    let l = keys.len();
                    *keys.entry(k).or_insert(l)
                })
                .collect();
            let cnt = |c: &Vec<usize>| c.iter().collect::<BTreeSet<_>>().len();
            if cnt(&nc) == cnt(&cls) {
                return cls;
            }
            cls = nc;
        }
    }

    pub fn nr_congruence_classes(&self) -> usize {
        self.congruence_classes().iter().collect::<BTreeSet<_>>().len()
    }

    /// the quotient by the coarsest congruence, built by the reference model
    pub fn minimal_quotient(&self) -> RS {
        let cls = self.congruence_classes();
        let mut ids: BTreeMap<usize, usize> = BTreeMap::new();
        let mut rep = vec![];
        for d in 0..self.n {
            if !ids.contains_key(&cls[d]) {
                ids.insert(cls[d], rep.len());
                rep.push(d);
            }
        }
        let k = rep.len();
        let ops: Vec<Vec<usize>> = self.ops.iter().map(|o| (0..k).map(|c| ids[&cls[o[rep[c]]]]).collect()).collect();
        let mut q = RS { n: k, ops, v: vec![vec![1; k]; self.dim()] };
        for i in 0..self.dim() {
            for c in 0..k {
                let r = q.r(i, i + 1, c);
                q.v[i][c] = self.m_adj(i, rep[c]) / r;
            }
        }
        q
    }

    /// curvature as a fraction (numerator, denominator > 0), 2-dimensional symbols
    pub fn curvature2d(&self) -> (i64, i64) {
        assert_eq!(self.dim(), 2);
        let mut num: i64 = 0;
        let mut den: i64 = 1;
        let mut add = |a: i64, b: i64| {
            // num/den += a/b
            num = num * b + a * den;
            den *= b;
            let g = gcd(num.abs(), den);
            if g > 1 {
                num /= g;
                den /= g;
            }
        };
        for d in 0..self.n {
            add(1, self.m_adj(0, d) as i64);
            add(1, self.m_adj(1, d) as i64);
            add(-1, 2);
        }
        (num, den)
    }

    /// k-sheeted cover from a sheet cocycle: `shift[i][d]` is a permutation of 0..k used when
    /// crossing the i-edge at base chamber d (must satisfy shift[i][op_i(d)] = inverse).
    /// Chamber (sheet s, d) gets number s * n + d.
    pub fn cover_by(&self, k: usize, shift: &dyn Fn(usize, usize, usize) -> usize) -> RS {
        let n = self.n;
        let mut ops = vec![vec![usize::MAX; n * k]; self.ops.len()];
        for i in 0..self.ops.len() {
            for s in 0..k {
                for d in 0..n {
                    ops[i][s * n + d] = shift(i, d, s) * n + self.ops[i][d];
                }
            }
        }
        let mut c = RS { n: n * k, ops, v: vec![vec![0; n * k]; self.dim()] };
        for i in 0..self.dim() {
            for x in 0..n * k {
                let r = c.r(i, i + 1, x);
                let m = self.m_adj(i, x % n);
                c.v[i][x] = if m % r == 0 { m / r } else { 0 };
            }
        }
        c
    }
}

pub fn gcd(a: i64, b: i64) -> i64 {
    if b == 0 {
        a.abs()
    } else {
        gcd(b, a % b)
    }
}

pub fn perms(n: usize) -> Vec<Vec<usize>> {
    fn rec(n: usize, cur: &mut Vec<usize>, used: &mut Vec<bool>, out: &mut Vec<Vec<usize>>) {
        if cur.len() == n {
            out.push(cur.clone());
            return;
        }
        for x in 0..n {
            if !used[x] {
                used[x] = true;
                cur.push(x);
                rec(n, cur, used, out);
                cur.pop();
                used[x] = false;
            }
        }
    }
    let mut out = vec![];
    rec(n, &mut vec![], &mut vec![false; n], &mut out);
    out
}

/// all involutions on 0..n as permutation vectors, in a fixed order
pub fn involutions(n: usize) -> Vec<Vec<usize>> {
    fn rec(n: usize, p: &mut Vec<usize>, out: &mut Vec<Vec<usize>>) {
        if let Some(i) = (0..n).find(|&i| p[i] == usize::MAX) {
            p[i] = i;
            rec(n, p, out);
            p[i] = usize::MAX;
            for j in (i + 1)..n {
                if p[j] == usize::MAX {
                    p[i] = j;
                    p[j] = i;
                    rec(n, p, out);
                    p[i] = usize::MAX;
                    p[j] = usize::MAX;
                }
            }
        } else {
            out.push(p.clone());
        }
    }
    let mut out = vec![];
    rec(n, &mut vec![usize::MAX; n], &mut out);
    out
}

pub fn perms_commute(a: &[usize], b: &[usize]) -> bool {
    (0..a.len()).all(|x| a[b[x]] == b[a[x]])
}

// ---------------------------------------------------------------------------------------
// conversion to and from the crate's representations (the only place the crate is used)

use rust_dsymbols::derived::{build_set, build_sym_using_vs};
use rust_dsymbols::dsets::{DSet, PartialDSet};
use rust_dsymbols::dsyms::{DSym, PartialDSym};

pub fn to_partial_dset(s: &RS) -> PartialDSet {
    build_set(s.n, s.dim(), |i, d| Some(s.ops[i][d - 1] + 1))
}

pub fn to_partial_dsym(s: &RS) -> PartialDSym {
    build_sym_using_vs(to_partial_dset(s), |i, d| Some(s.v[i][d - 1]))
}

/// reads a complete crate symbol through its public queries `op` and `v(i, i+1, ·)`
pub fn from_dsym<T: DSym>(t: &T) -> Option<RS> {
    let n = t.size();
    let dim = t.dim();
    let mut ops = vec![vec![0; n]; dim + 1];
    let mut v = vec![vec![0; n]; dim];
    for i in 0..=dim {
        for d in 0..n {
            let e = t.op(i, d + 1)?;
            if e < 1 || e > n {
                return None;
            }
            ops[i][d] = e - 1;
        }
    }
    for i in 0..dim {
        for d in 0..n {
            v[i][d] = t.v(i, i + 1, d + 1)?;
        }
    }
    Some(RS { n, ops, v })
}

pub fn from_dset<T: DSet>(t: &T) -> Option<RS> {
    let n = t.size();
    let dim = t.dim();
    let mut ops = vec![vec![0; n]; dim + 1];
    for i in 0..=dim {
        for d in 0..n {
            let e = t.op(i, d + 1)?;
            if e < 1 || e > n {
                return None;
            }
            ops[i][d] = e - 1;
        }
    }
    Some(RS::from_ops(ops))
}

/// structural validity of something that claims to be a complete symbol
pub fn valid_symbol(s: &RS) -> Result<(), String> {
    if !s.is_involutive() {
        return Err("an operation is not an involution on 1..size".into());
    }
    if !s.v_consistent() {
        return Err("v is not constant on a 2-orbit".into());
    }
    if s.v.iter().any(|row| row.iter().any(|&x| x == 0)) {
        return Err("a branching number is 0".into());
    }
    Ok(())
}
