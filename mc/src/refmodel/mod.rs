pub mod conway;
pub mod dsym;
pub mod groups;
pub mod pi1;
pub mod three_d;
