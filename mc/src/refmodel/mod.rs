pub mod dsym;
pub mod groups;
