pub mod dsym;
