//! Reference-model helpers for 3-dimensional symbols (tiles, vertex figures, manifolds).

use crate::refmodel::conway::{is_bad, orbifold_of};
use crate::refmodel::dsym::RS;

/// the sub-symbol on three consecutive indices `i0..i0+2` containing `seed`, renumbered in increasing order
pub fn subsymbol2d(s: &RS, i0: usize, seed: usize) -> RS {
    let idcs = [i0, i0 + 1, i0 + 2];
    let comp = s.component(&idcs, seed);
    let mut num = vec![usize::MAX; s.n];
    for (k, &d) in comp.iter().enumerate() {
        num[d] = k;
    }
    let ops: Vec<Vec<usize>> = idcs.iter().map(|&i| comp.iter().map(|&d| num[s.ops[i][d]]).collect()).collect();
    let v: Vec<Vec<usize>> = (0..2).map(|k| comp.iter().map(|&d| s.v[i0 + k][d]).collect()).collect();
    RS { n: comp.len(), ops, v }
}

/// every (i0, i0+1, i0+2)-component is a good spherical 2-dimensional orbifold
pub fn components_spherical(s: &RS, i0: usize) -> bool {
    let idcs = [i0, i0 + 1, i0 + 2];
    s.components(&idcs).iter().all(|c| {
        let t = subsymbol2d(s, i0, c[0]);
        let (kn, _) = t.curvature2d();
        kn > 0 && !is_bad(&orbifold_of(&t))
    })
}

/// tiles and vertex figures are spherical and the branching obeys the crystallographic restriction
pub fn admissible3d(s: &RS) -> bool {
    s.dim() == 3
        && s.v.iter().all(|r| r.iter().all(|&x| [1, 2, 3, 4, 6].contains(&x)))
        && components_spherical(s, 0)
        && components_spherical(s, 1)
}

/// no branching anywhere: v = 1 on adjacent pairs and op_i(d) != op_j(d) for |i-j| > 1
pub fn branch_free(s: &RS) -> bool {
    let k = s.ops.len();
    s.v.iter().all(|r| r.iter().all(|&x| x == 1)) && (0..k).all(|i| ((i + 2)..k).all(|j| (0..s.n).all(|d| s.ops[i][d] != s.ops[j][d])))
}

/// the (i0..i0+2)-component of `seed` is a sphere: loopless, bipartite, V - E + F = 2
pub fn component_is_sphere(s: &RS, i0: usize, seed: usize) -> bool {
    let t = subsymbol2d(s, i0, seed);
    if !t.is_loopless() || !t.is_bipartite() {
        return false;
    }
    let count = |a: usize, b: usize| -> i64 { t.components(&[a, b]).len() as i64 };
    count(1, 2) - count(0, 2) + count(0, 1) == 2
}

/// complete, branch-free, distant operations commute, all tiles and vertex figures are spheres
pub fn valid_manifold_tiling(s: &RS) -> Result<(), String> {
    if s.dim() != 3 {
        return Err("not 3-dimensional".into());
    }
    if !s.is_involutive() {
        return Err("an operation is not an involution".into());
    }
    if !s.commutes() {
        return Err("operations with distant indices do not commute".into());
    }
    if !branch_free(s) {
        return Err("not branch-free".into());
    }
    for i0 in 0..2 {
        for c in s.components(&[i0, i0 + 1, i0 + 2]) {
            if !component_is_sphere(s, i0, c[0]) {
                return Err(format!("the ({},{},{})-component of chamber {} is not a sphere", i0, i0 + 1, i0 + 2, c[0] + 1));
            }
        }
    }
    Ok(())
}
