//! R11 — textbook presentation of the orbifold fundamental group of a D-symbol.
//!
//! One generator per chamber facet (d, i); the two sides of a facet pair carry mutually
//! inverse generators, facets crossed by a BFS spanning tree are trivial, a mirror facet
//! gives g^2, and every (i, j)-orbit contributes the word read around it raised to its
//! branching number.  The Tietze-trivial eliminations (inverse pairs, tree facets) are
//! done while building, so that the generator count stays small enough for the class
//! counter.

use crate::refmodel::dsym::RS;
use crate::refmodel::groups::{free_reduce, Word};
use std::collections::VecDeque;

pub struct Pi1 {
    pub ngens: usize,
    pub rels: Vec<Word>,
    /// word of the facet (d, i): `facet[d][i]`
    pub facet: Vec<Vec<Word>>,
}

pub fn textbook_pi1(s: &RS) -> Pi1 {
    let n = s.n;
    let dim = s.dim();
    let mut facet: Vec<Vec<Option<Word>>> = vec![vec![None; dim + 1]; n];
    // BFS spanning tree from chamber 0 (every component gets its own root)
    let mut seen = vec![false; n];
    for root in 0..n {
        if seen[root] {
            continue;
        }
        seen[root] = true;
        let mut q = VecDeque::from([root]);
        while let Some(d) = q.pop_front() {
            for i in 0..=dim {
                let e = s.ops[i][d];
                if !seen[e] {
                    seen[e] = true;
                    q.push_back(e);
                    facet[d][i] = Some(vec![]);
                    facet[e][i] = Some(vec![]);
                }
            }
        }
    }
    let mut ngens = 0usize;
    let mut rels: Vec<Word> = vec![];
    for d in 0..n {
        for i in 0..=dim {
            if facet[d][i].is_none() {
                let e = s.ops[i][d];
                ngens += 1;
                let g = ngens as isize;
                if e == d {
                    facet[d][i] = Some(vec![g]);
                    rels.push(vec![g, g]);
                } else {
                    facet[d][i] = Some(vec![g]);
                    facet[e][i] = Some(vec![-g]);
                }
            }
        }
    }
    let facet: Vec<Vec<Word>> = facet.into_iter().map(|r| r.into_iter().map(|w| w.unwrap()).collect()).collect();
    for i in 0..=dim {
        for j in (i + 1)..=dim {
            let mut done = vec![false; n];
            for d in 0..n {
                if done[d] {
                    continue;
                }
                let mut w: Word = vec![];
                let mut e = d;
                loop {
                    w.extend_from_slice(&facet[e][i]);
                    done[e] = true;
                    e = s.ops[i][e];
                    done[e] = true;
                    w.extend_from_slice(&facet[e][j]);
                    e = s.ops[j][e];
                    done[e] = true;
                    if e == d {
                        break;
                    }
                }
                let v = s.v_any(i, j, d);
                let mut r: Word = vec![];
                for _ in 0..v {
                    r.extend_from_slice(&w);
                }
                let r = free_reduce(&r);
                if !r.is_empty() {
                    rels.push(r);
                }
            }
        }
    }
    Pi1 { ngens, rels, facet }
}
