//! R2 — Conway orbifold symbols: parser, Euler characteristic, bad-orbifold test.

#[derive(Debug, Clone, PartialEq, Eq, PartialOrd, Ord)]
pub struct Orb {
    pub cones: Vec<i64>,
    pub bnds: Vec<Vec<i64>>,
    pub handles: i64,
    pub caps: i64,
}

pub fn parse_orb(s: &str) -> Option<Orb> {
    let s = match s {
        "1" => "",
        "1*" => "*",
        "1x" => "x",
        t => t,
    };
    let cs: Vec<char> = s.chars().collect();
    let mut o = Orb { cones: vec![], bnds: vec![], handles: 0, caps: 0 };
    let mut i = 0;
    let mut in_bnd = false;
    while i < cs.len() {
        let c = cs[i];
        if c == '*' {
            o.bnds.push(vec![]);
            in_bnd = true;
            i += 1;
        } else if c == 'o' {
            o.handles += 1;
            in_bnd = false;
            i += 1;
        } else if c == 'x' {
            o.caps += 1;
            in_bnd = false;
            i += 1;
        } else {
            let n: i64;
            if c == '(' {
                let j = (i..cs.len()).find(|&j| cs[j] == ')')?;
                n = cs[i + 1..j].iter().collect::<String>().parse().ok()?;
                i = j + 1;
            } else if c.is_ascii_digit() {
                n = c.to_digit(10)? as i64;
                i += 1;
            } else {
                return None;
            }
            if n < 2 {
                return None;
            }
            if in_bnd {
                o.bnds.last_mut()?.push(n);
            } else {
                o.cones.push(n);
            }
        }
    }
    Some(o)
}

/// Euler characteristic as a fraction (num, den), den > 0
pub fn chi(o: &Orb) -> (i64, i64) {
    let mut num = 2 - 2 * o.handles - o.caps - o.bnds.len() as i64;
    let mut den = 1i64;
    let mut sub = |a: i64, b: i64| {
        // num/den -= a/b
        num = num * b - a * den;
        den *= b;
        let g = crate::refmodel::dsym::gcd(num.abs(), den);
        if g > 1 {
            num /= g;
            den /= g;
        }
    };
    for &n in &o.cones {
        sub(n - 1, n);
    }
    for b in &o.bnds {
        for &n in b {
            sub(n - 1, 2 * n);
        }
    }
    (num, den)
}

/// tear-drop or spindle: one cone or corner point, or two of different order
pub fn is_bad(o: &Orb) -> bool {
    if o.handles != 0 || o.caps != 0 {
        return false;
    }
    if o.bnds.is_empty() {
        o.cones.len() == 1 || (o.cones.len() == 2 && o.cones[0] != o.cones[1])
    } else if o.bnds.len() == 1 && o.cones.is_empty() {
        let b = &o.bnds[0];
        b.len() == 1 || (b.len() == 2 && b[0] != b[1])
    } else {
        false
    }
}

/// normal form up to order of cones, order of boundary components, and rotation and
/// reversal of the corner list of each boundary component
pub fn normalize(o: &Orb) -> Orb {
    let mut o = o.clone();
    for b in o.bnds.iter_mut() {
        let rots = |v: &Vec<i64>| -> Vec<i64> {
            if v.is_empty() {
                return vec![];
            }
            (0..v.len())
                .map(|i| {
                    let mut w = v[i..].to_vec();
                    w.extend_from_slice(&v[..i]);
                    w
                })
                .max()
                .unwrap()
        };
        let mut r = b.clone();
        r.reverse();
        let a = rots(b);
        let c = rots(&r);
        *b = a.max(c);
    }
    o.bnds.sort();
    o.cones.sort();
    o
}

use crate::refmodel::dsym::{gcd, RS};
use std::collections::BTreeMap;

/// The orbifold of a connected 2-dimensional symbol straight from the definitions:
/// cone points = branched 2-orbits without mirror; boundary components = cycles of mirror
/// facets linked by the chain orbits between them, corners = branched chain orbits in
/// cycle order; genus / cross-caps from the Euler characteristic of the underlying
/// surface (K/2 plus the cone and corner defects) and orientability (bipartiteness).
pub fn orbifold_of(s: &RS) -> Orb {
    assert_eq!(s.dim(), 2);
    let n = s.n;
    let mut cones: Vec<i64> = vec![];
    let mut corner_defects: Vec<i64> = vec![];
    // mirror facets and the chains that link them
    let mut chains: Vec<((usize, usize), (usize, usize), i64)> = vec![];
    for (i, j) in [(0usize, 1usize), (1, 2), (0, 2)] {
        let mut done = vec![false; n];
        for d in 0..n {
            if done[d] {
                continue;
            }
            // members of the (i,j)-orbit and its mirror facets
            let mut members = vec![];
            let mut st = vec![d];
            done[d] = true;
            while let Some(x) = st.pop() {
                members.push(x);
                for k in [i, j] {
                    let y = s.ops[k][x];
                    if !done[y] {
                        done[y] = true;
                        st.push(y);
                    }
                }
            }
            let mut ends: Vec<(usize, usize)> = vec![];
            for &x in &members {
                for k in [i, j] {
                    if s.ops[k][x] == x {
                        ends.push((x, k));
                    }
                }
            }
            let v = s.v_any(i, j, d) as i64;
            if ends.is_empty() {
                if v > 1 {
                    cones.push(v);
                }
            } else {
                assert_eq!(ends.len(), 2, "a chain orbit has exactly two mirror ends");
                chains.push((ends[0], ends[1], v));
                if v > 1 {
                    corner_defects.push(v);
                }
            }
        }
    }
    // boundary cycles
    let mut adj: BTreeMap<(usize, usize), Vec<((usize, usize), i64, usize)>> = BTreeMap::new();
    for (k, &(a, b, v)) in chains.iter().enumerate() {
        adj.entry(a).or_default().push((b, v, k));
        adj.entry(b).or_default().push((a, v, k));
    }
    let mut used = vec![false; chains.len()];
    let mut bnds: Vec<Vec<i64>> = vec![];
    for (&start, _) in adj.iter() {
        if adj[&start].iter().all(|&(_, _, k)| used[k]) {
            continue;
        }
        let mut corners = vec![];
        let mut cur = start;
        loop {
            let next = adj[&cur].iter().find(|&&(_, _, k)| !used[k]).cloned();
            match next {
                None => break,
                Some((nb, v, k)) => {
                    used[k] = true;
                    if v > 1 {
                        corners.push(v);
                    }
                    cur = nb;
                }
            }
        }
        bnds.push(corners);
    }
    // Euler characteristic of the underlying surface
    let (kn, kd) = s.curvature2d();
    let mut num = kn;
    let mut den = 2 * kd;
    let mut add = |a: i64, b: i64| {
        num = num * b + a * den;
        den *= b;
        let g = gcd(num.abs(), den);
        if g > 1 {
            num /= g;
            den /= g;
        }
    };
    for &c in &cones {
        add(c - 1, c);
    }
    for &c in &corner_defects {
        add(c - 1, 2 * c);
    }
    let g = gcd(num.abs(), den).max(1);
    let (num, den) = (num / g, den / g);
    assert_eq!(den, 1, "Euler characteristic of the underlying surface is not an integer");
    let chi_surf = num;
    let x = 2 - chi_surf - bnds.len() as i64;
    let (handles, caps) = if s.is_bipartite() { (x / 2, 0) } else { (0, x) };
    Orb { cones, bnds, handles, caps }
}
