use dsym_mc::engine::*;
use dsym_mc::props;

fn usage() -> ! {
    eprintln!("usage: dsym_mc <ID> quick|thorough | dsym_mc <ID> --replay <path> | dsym_mc --list");
    std::process::exit(2);
}

fn main() {
    let args: Vec<String> = std::env::args().skip(1).collect();
    if args.is_empty() {
        usage();
    }
    let specs = props::all();
    if args[0] == "--list" {
        for s in &specs {
            println!("{}", s.id);
        }
        return;
    }
    if args[0] == "--worker" {
        // --worker ID tier seed shard nshards dir
        if args.len() != 7 {
            usage();
        }
        let spec = specs.iter().find(|s| s.id == args[1]).unwrap_or_else(|| usage());
        let tier = Tier::parse(&args[2]).unwrap_or_else(|| usage());
        let seed: u64 = args[3].parse().unwrap_or(0);
        let shard: usize = args[4].parse().unwrap_or_else(|_| usage());
        let nshards: usize = args[5].parse().unwrap_or_else(|_| usage());
        worker_main(spec, tier, seed, shard, nshards, std::path::Path::new(&args[6]));
    }
    let spec = specs.iter().find(|s| s.id == args[0]).unwrap_or_else(|| {
        eprintln!("unknown property {}", args[0]);
        std::process::exit(2)
    });
    if args.len() >= 3 && args[1] == "--replay" {
        std::process::exit(replay_main(spec, &args[2]));
    }
    let tier = args
        .get(1)
        .and_then(|s| Tier::parse(s))
        .or_else(|| std::env::var("VERIF_TIER").ok().and_then(|s| Tier::parse(&s)))
        .unwrap_or(Tier::Quick);
    let seed: u64 = std::env::var("VERIF_SEED").ok().and_then(|s| s.parse::<i64>().ok()).map(|x| x as u64).unwrap_or(0);
    std::process::exit(parent_main(spec, tier, seed));
}
