//! Small helpers shared by the property modules.

use crate::refmodel::dsym::RS;
use serde_json::{json, Value};

/// JSON form of a reference symbol; chambers are written 1-based like in the crate's texts
pub fn rs_to_json(s: &RS) -> Value {
    json!({
        "ops": s.ops.iter().map(|o| o.iter().map(|x| x + 1).collect::<Vec<_>>()).collect::<Vec<_>>(),
        "v": s.v,
    })
}

pub fn rs_from_json(v: &Value) -> Option<RS> {
    let ops: Vec<Vec<usize>> = v["ops"]
        .as_array()?
        .iter()
        .map(|o| o.as_array().map(|a| a.iter().map(|x| x.as_u64().unwrap_or(1) as usize - 1).collect()))
        .collect::<Option<_>>()?;
    let vv: Vec<Vec<usize>> = v["v"]
        .as_array()?
        .iter()
        .map(|o| o.as_array().map(|a| a.iter().map(|x| x.as_u64().unwrap_or(0) as usize).collect()))
        .collect::<Option<_>>()?;
    let n = ops.first()?.len();
    Some(RS { n, ops, v: vv })
}

pub fn usize_list(v: &Value) -> Vec<usize> {
    v.as_array().map(|a| a.iter().map(|x| x.as_u64().unwrap_or(0) as usize).collect()).unwrap_or_default()
}

pub fn isize_list(v: &Value) -> Vec<isize> {
    v.as_array().map(|a| a.iter().map(|x| x.as_i64().unwrap_or(0) as isize).collect()).unwrap_or_default()
}

/// all duplicate-free sequences over 1..=n (including the empty one)
pub fn dupfree_seqs(n: usize) -> Vec<Vec<usize>> {
    let mut out = vec![vec![]];
    let mut frontier: Vec<Vec<usize>> = vec![vec![]];
    for _ in 0..n {
        let mut next = vec![];
        for s in &frontier {
            for x in 1..=n {
                if !s.contains(&x) {
                    let mut t = s.clone();
                    t.push(x);
                    next.push(t);
                }
            }
        }
        out.extend(next.iter().cloned());
        frontier = next;
    }
    out
}
