//! Runner shared by all property checks.
//!
//! A check is a function `run(&mut Ctx)` that enumerates a finite space of cases
//! deterministically.  The parent process starts `nshards` worker *subprocesses* of this
//! same binary; each worker enumerates the whole space but executes only the cases whose
//! running index is congruent to its shard number (`Ctx::take`).  Workers
//!
//! * install a silent panic hook and wrap calls into the crate under test in
//!   `catch_unwind` (`Ctx::guard`),
//! * announce every case in a small file *before* running it, so that an abort
//!   (allocation failure, stack overflow) or a hang can be attributed to that case,
//! * run a watchdog thread that turns "no new case announced for `case_cap` seconds"
//!   into a reported violation of kind `timeout`,
//! * write their counts, samples and violations as one JSON file at the end.
//!
//! The parent merges the worker results, consults `known_findings.json`, writes the
//! evidence file and replay files, prints the summary and exits 0 / 1 / 2
//! (2 = machinery failure, never a verdict).

use serde_json::{json, Map, Value};
use std::collections::BTreeMap;
use std::io::Write;
use std::os::unix::fs::FileExt;
use std::panic::{catch_unwind, AssertUnwindSafe};
use std::path::{Path, PathBuf};
use std::sync::atomic::{AtomicU64, Ordering};
use std::sync::{Arc, Mutex};
use std::time::{Duration, Instant};

pub fn verif_dir() -> String {
    std::env::var("VERIF_DIR").unwrap_or_else(|_| "/verif".to_string())
}

#[derive(Clone, Copy, PartialEq, Eq, Debug)]
pub enum Tier {
    Quick,
    Thorough,
}

impl Tier {
    pub fn name(self) -> &'static str {
        match self {
            Tier::Quick => "quick",
            Tier::Thorough => "thorough",
        }
    }
    pub fn parse(s: &str) -> Option<Tier> {
        match s {
            "quick" => Some(Tier::Quick),
            "thorough" => Some(Tier::Thorough),
            _ => None,
        }
    }
    pub fn is_thorough(self) -> bool {
        self == Tier::Thorough
    }
    /// picks the quick or the thorough bound
    pub fn pick<T>(self, quick: T, thorough: T) -> T {
        match self {
            Tier::Quick => quick,
            Tier::Thorough => thorough,
        }
    }
}

#[derive(Clone, Debug)]
pub struct Violation {
    /// short machine-readable clause name, e.g. "roundtrip", "panic", "timeout"
    pub kind: String,
    /// replayable description of the failing case
    pub case: Value,
    /// human-readable observed / expected
    pub detail: String,
    /// ordering key: smaller = simpler case
    pub weight: u64,
}

impl Violation {
    pub fn to_json(&self) -> Value {
        json!({"kind": self.kind, "case": self.case, "detail": self.detail, "weight": self.weight})
    }
    pub fn from_json(v: &Value) -> Violation {
        Violation {
            kind: v["kind"].as_str().unwrap_or("").to_string(),
            case: v["case"].clone(),
            detail: v["detail"].as_str().unwrap_or("").to_string(),
            weight: v["weight"].as_u64().unwrap_or(0),
        }
    }
}

/// Static description of a check (what goes into the evidence file besides counts).
pub struct Spec {
    pub id: &'static str,
    pub run: fn(&mut Ctx),
    /// re-runs one recorded case; returns nothing, reports through ctx
    pub replay: fn(&mut Ctx, &Value),
    pub nshards: fn(Tier) -> usize,
    /// seconds without a new case announcement before the watchdog fires
    pub case_cap_s: fn(Tier) -> u64,
    pub rule: &'static str,
    pub assumptions: &'static [&'static str],
    pub bounds: fn(Tier) -> Value,
}

const MAX_VIOLATIONS_PER_KIND: usize = 3;
const MAX_SAMPLES: usize = 4;

struct Announce {
    file: std::fs::File,
}

pub struct Ctx {
    pub tier: Tier,
    pub seed: u64,
    pub shard: usize,
    pub nshards: usize,
    pub replaying: bool,
    index: u64,
    pub evaluations: u64,
    pub nontrivial: u64,
    pub states: u64,
    pub transitions: u64,
    pub traces: u64,
    samples: Vec<Value>,
    violations: Vec<Violation>,
    kind_counts: BTreeMap<String, u64>,
    counters: BTreeMap<String, i64>,
    maxima: BTreeMap<String, i64>,
    notes: Vec<String>,
    caps_hit: Vec<String>,
    announce: Option<Announce>,
    shared: Arc<Shared>,
}

struct Shared {
    seq: AtomicU64,
    last: Mutex<(Instant, String)>,
}

impl Ctx {
    fn new(tier: Tier, seed: u64, shard: usize, nshards: usize, announce: Option<PathBuf>) -> Ctx {
        let announce = announce.map(|p| Announce {
            file: std::fs::OpenOptions::new().create(true).write(true).truncate(true).open(p).expect("announce file"),
        });
        Ctx {
            tier,
            seed,
            shard,
            nshards,
            replaying: false,
            index: 0,
            evaluations: 0,
            nontrivial: 0,
            states: 0,
            transitions: 0,
            traces: 0,
            samples: vec![],
            violations: vec![],
            kind_counts: BTreeMap::new(),
            counters: BTreeMap::new(),
            maxima: BTreeMap::new(),
            notes: vec![],
            caps_hit: vec![],
            announce,
            shared: Arc::new(Shared { seq: AtomicU64::new(0), last: Mutex::new((Instant::now(), String::new())) }),
        }
    }

    /// True if the next case of the deterministic enumeration belongs to this worker.
    /// Must be called exactly once per case by every worker.
    pub fn take(&mut self) -> bool {
        let i = self.index;
        self.index += 1;
        self.replaying || (i.wrapping_add(self.seed) % self.nshards as u64) == self.shard as u64
    }

    /// For work that must be done by exactly one worker (global aggregation of a family).
    pub fn take_unit(&mut self) -> bool {
        self.take()
    }

    /// Announces the case about to be run (written to disk before it runs).
    pub fn announce(&mut self, case: &Value) {
        let s = case.to_string();
        self.announce_str(&s);
    }

    pub fn announce_str(&mut self, s: &str) {
        if let Some(a) = &self.announce {
            let mut buf = Vec::with_capacity(s.len() + 16);
            let _ = write!(buf, "{:08}|", s.len().min(99_999_999));
            buf.extend_from_slice(s.as_bytes());
            let _ = a.file.write_at(&buf, 0);
        }
        self.shared.seq.fetch_add(1, Ordering::Relaxed);
        if let Ok(mut l) = self.shared.last.lock() {
            l.0 = Instant::now();
            // keep the text only when cheap
            if s.len() <= 4096 {
                l.1.clear();
                l.1.push_str(s);
            } else {
                l.1 = s[..4096].to_string();
            }
        }
    }

    /// One executed case.  `nontrivial` by the property's own rule.
    pub fn count(&mut self, nontrivial: bool) {
        self.evaluations += 1;
        self.states += 1;
        if nontrivial {
            self.nontrivial += 1;
        }
    }

    /// `n` operations of the crate executed on the current case and compared with the oracle.
    pub fn ops(&mut self, n: u64) {
        self.transitions += n;
        self.traces += n;
    }

    pub fn sample(&mut self, v: Value) {
        if self.samples.len() < MAX_SAMPLES {
            self.samples.push(v);
        }
    }

    pub fn want_sample(&self) -> bool {
        self.samples.len() < MAX_SAMPLES
    }

    pub fn add(&mut self, counter: &str, n: i64) {
        *self.counters.entry(counter.to_string()).or_insert(0) += n;
    }

    pub fn max(&mut self, counter: &str, n: i64) {
        let e = self.maxima.entry(counter.to_string()).or_insert(i64::MIN);
        if n > *e {
            *e = n;
        }
    }

    pub fn note(&mut self, s: String) {
        if self.notes.len() < 20 {
            self.notes.push(s);
        }
    }

    pub fn cap_hit(&mut self, s: String) {
        if self.caps_hit.len() < 20 {
            self.caps_hit.push(s);
        }
    }

    pub fn violation(&mut self, kind: &str, case: Value, detail: String, weight: u64) {
        let c = self.kind_counts.entry(kind.to_string()).or_insert(0);
        *c += 1;
        if (*c as usize) <= MAX_VIOLATIONS_PER_KIND {
            self.violations.push(Violation { kind: kind.to_string(), case, detail, weight });
        }
    }

    pub fn nviolations(&self) -> u64 {
        self.kind_counts.values().sum()
    }

    /// Runs `f` (which calls into the crate under test); a panic becomes `Err(message)`.
    pub fn guard<T>(&mut self, f: impl FnOnce() -> T) -> Result<T, String> {
        in_subject(|| catch_unwind(AssertUnwindSafe(f))).map_err(|e| panic_message(&e))
    }

    /// Runs an input supplier that belongs to ANOTHER property (e.g. the D-set generator feeding C07).
    /// A panic in it is not this property's verdict, but it must not pass silently either: the family it
    /// would have supplied is reported as not covered (the run is then not exhaustive).
    pub fn supply<T: Default>(&mut self, what: &str, f: impl FnOnce() -> T) -> T {
        match self.guard(f) {
            Ok(v) => v,
            Err(msg) => {
                self.cap_hit(format!("input supplier {} panicked ({}): the family it feeds was NOT explored", what, msg));
                T::default()
            }
        }
    }

    /// `guard` that reports a panic as a violation of kind "panic:<what>".
    pub fn guarded<T>(&mut self, what: &str, case: &Value, weight: u64, f: impl FnOnce() -> T) -> Option<T> {
        match self.guard(f) {
            Ok(v) => Some(v),
            Err(msg) => {
                self.violation(&format!("panic:{}", what), case.clone(), format!("{} panicked: {}", what, msg), weight);
                None
            }
        }
    }

    fn to_json(&self) -> Value {
        json!({
            "shard": self.shard,
            "evaluations": self.evaluations,
            "nontrivial": self.nontrivial,
            "states": self.states,
            "transitions": self.transitions,
            "traces": self.traces,
            "samples": self.samples,
            "violations": self.violations.iter().map(|v| v.to_json()).collect::<Vec<_>>(),
            "kind_counts": self.kind_counts,
            "counters": self.counters,
            "maxima": self.maxima,
            "notes": self.notes,
            "caps_hit": self.caps_hit,
        })
    }
}

pub fn panic_message(e: &Box<dyn std::any::Any + Send>) -> String {
    if let Some(s) = e.downcast_ref::<&str>() {
        s.to_string()
    } else if let Some(s) = e.downcast_ref::<String>() {
        s.clone()
    } else {
        "<non-string panic payload>".to_string()
    }
}

pub fn silence_panics() {
    std::panic::set_hook(Box::new(|_| {}));
}

fn scratch_dir(id: &str) -> PathBuf {
    let p = Path::new(&verif_dir()).join("target").join("run").join(format!("{}-{}", id, std::process::id()));
    let _ = std::fs::create_dir_all(&p);
    p
}

// ---------------------------------------------------------------------------------------
// worker side

/// Nesting depth of calls into the code under test (set by `in_subject` / `Ctx::guard`).  The watchdog turns a
/// stall into a verdict (kind "timeout") only while the code under test is running; a stall in the harness's own
/// enumeration or reference models is a machinery failure (exit 2), never a verdict.
pub static SUBJECT_DEPTH: std::sync::atomic::AtomicUsize = std::sync::atomic::AtomicUsize::new(0);

/// Runs `f` marked as "the code under test is running" (for crate calls that do not go through `Ctx::guard`).
pub fn in_subject<T>(f: impl FnOnce() -> T) -> T {
    struct Leave;
    impl Drop for Leave {
        fn drop(&mut self) {
            SUBJECT_DEPTH.fetch_sub(1, Ordering::SeqCst);
        }
    }
    SUBJECT_DEPTH.fetch_add(1, Ordering::SeqCst);
    let _l = Leave;
    f()
}

/// `catch_unwind` around a call into the code under test, marked for the watchdog
pub fn catch_subject<T>(f: impl FnOnce() -> T) -> std::thread::Result<T> {
    in_subject(|| catch_unwind(AssertUnwindSafe(f)))
}

/// peak resident set of this process in MiB (VmHWM), 0 if /proc is unreadable
fn peak_rss_mb() -> i64 {
    std::fs::read_to_string("/proc/self/status")
        .ok()
        .and_then(|t| t.lines().find(|l| l.starts_with("VmHWM:")).and_then(|l| l.split_whitespace().nth(1).and_then(|x| x.parse::<i64>().ok())))
        .map(|kb| kb / 1024)
        .unwrap_or(0)
}

pub fn worker_main(spec: &Spec, tier: Tier, seed: u64, shard: usize, nshards: usize, dir: &Path) -> ! {
    silence_panics();
    let result_path = dir.join(format!("result-{}.json", shard));
    let announce_path = dir.join(format!("announce-{}.txt", shard));
    let mut ctx = Ctx::new(tier, seed, shard, nshards, Some(announce_path));
    // watchdog
    let shared = ctx.shared.clone();
    let cap = (spec.case_cap_s)(tier);
    let rp = result_path.clone();
    std::thread::spawn(move || loop {
        std::thread::sleep(Duration::from_millis(500));
        let (t, s) = {
            let l = shared.last.lock().unwrap();
            (l.0, l.1.clone())
        };
        if shared.seq.load(Ordering::Relaxed) > 0 && t.elapsed() > Duration::from_secs(cap) {
            if SUBJECT_DEPTH.load(Ordering::SeqCst) == 0 {
                // the harness itself (enumeration, reference model) is what takes so long: no verdict
                eprintln!("HARNESS STALL in worker {}: no new case for {} s while the code under test was NOT running", shard, cap);
                eprintln!("  last announced case: {}", s);
                std::process::exit(2);
            }
            let case: Value = serde_json::from_str(&s).unwrap_or(Value::String(s));
            let v = json!({
                "shard": shard, "evaluations": 0, "nontrivial": 0, "states": 0, "transitions": 0, "traces": 0,
                "samples": [], "kind_counts": {"timeout": 1}, "counters": {}, "maxima": {}, "notes": [], "caps_hit": [],
                "partial": true,
                "violations": [{"kind": "timeout", "case": case, "weight": 0,
                    "detail": format!("case did not finish within {} s (watchdog)", cap)}],
            });
            let _ = std::fs::write(&rp, v.to_string());
            std::process::exit(0);
        }
    });
    let r = catch_unwind(AssertUnwindSafe(|| (spec.run)(&mut ctx)));
    match r {
        Ok(()) => {
            ctx.max("peak_worker_rss_mb", peak_rss_mb());
            std::fs::write(&result_path, ctx.to_json().to_string()).expect("write result");
            std::process::exit(0);
        }
        Err(e) => {
            // a panic outside Ctx::guard is a harness failure, not a verdict
            eprintln!("HARNESS PANIC in worker {} of {}: {}", shard, spec.id, panic_message(&e));
            let last = ctx.shared.last.lock().map(|l| l.1.clone()).unwrap_or_default();
            eprintln!("  last announced case: {}", last);
            std::process::exit(2);
        }
    }
}

// ---------------------------------------------------------------------------------------
// parent side

pub struct Merged {
    pub evaluations: u64,
    pub nontrivial: u64,
    pub states: u64,
    pub transitions: u64,
    pub traces: u64,
    pub samples: Vec<Value>,
    pub violations: Vec<Violation>,
    pub kind_counts: BTreeMap<String, u64>,
    pub counters: BTreeMap<String, i64>,
    pub maxima: BTreeMap<String, i64>,
    pub notes: Vec<String>,
    pub caps_hit: Vec<String>,
}

fn merge(results: &[Value]) -> Merged {
    let mut m = Merged {
        evaluations: 0,
        nontrivial: 0,
        states: 0,
        transitions: 0,
        traces: 0,
        samples: vec![],
        violations: vec![],
        kind_counts: BTreeMap::new(),
        counters: BTreeMap::new(),
        maxima: BTreeMap::new(),
        notes: vec![],
        caps_hit: vec![],
    };
    for r in results {
        m.evaluations += r["evaluations"].as_u64().unwrap_or(0);
        m.nontrivial += r["nontrivial"].as_u64().unwrap_or(0);
        m.states += r["states"].as_u64().unwrap_or(0);
        m.transitions += r["transitions"].as_u64().unwrap_or(0);
        m.traces += r["traces"].as_u64().unwrap_or(0);
        if let Some(a) = r["samples"].as_array() {
            for s in a {
                if m.samples.len() < 6 {
                    m.samples.push(s.clone());
                }
            }
        }
        if let Some(a) = r["violations"].as_array() {
            for v in a {
                m.violations.push(Violation::from_json(v));
            }
        }
        if let Some(o) = r["kind_counts"].as_object() {
            for (k, v) in o {
                *m.kind_counts.entry(k.clone()).or_insert(0) += v.as_u64().unwrap_or(0);
            }
        }
        if let Some(o) = r["counters"].as_object() {
            for (k, v) in o {
                *m.counters.entry(k.clone()).or_insert(0) += v.as_i64().unwrap_or(0);
            }
        }
        if let Some(o) = r["maxima"].as_object() {
            for (k, v) in o {
                let e = m.maxima.entry(k.clone()).or_insert(i64::MIN);
                *e = (*e).max(v.as_i64().unwrap_or(i64::MIN));
            }
        }
        if let Some(a) = r["notes"].as_array() {
            for s in a {
                if let Some(s) = s.as_str() {
                    if !m.notes.iter().any(|x| x == s) && m.notes.len() < 30 {
                        m.notes.push(s.to_string());
                    }
                }
            }
        }
        if let Some(a) = r["caps_hit"].as_array() {
            for s in a {
                if let Some(s) = s.as_str() {
                    if !m.caps_hit.iter().any(|x| x == s) {
                        m.caps_hit.push(s.to_string());
                    }
                }
            }
        }
    }
    m.violations.sort_by(|a, b| (a.weight, &a.kind, a.case.to_string()).cmp(&(b.weight, &b.kind, b.case.to_string())));
    m
}

fn read_announce(p: &Path) -> Option<String> {
    let b = std::fs::read(p).ok()?;
    if b.len() < 9 {
        return None;
    }
    let n: usize = std::str::from_utf8(&b[..8]).ok()?.parse().ok()?;
    let end = (9 + n).min(b.len());
    Some(String::from_utf8_lossy(&b[9..end]).to_string())
}

/// A known finding suppresses a violation only if property, kind and case all match.
pub struct Known {
    pub entries: Vec<Value>,
}

impl Known {
    pub fn load() -> Known {
        let p = Path::new(&verif_dir()).join("known_findings.json");
        let entries = std::fs::read_to_string(p)
            .ok()
            .and_then(|s| serde_json::from_str::<Value>(&s).ok())
            .and_then(|v| v["findings"].as_array().cloned())
            .unwrap_or_default();
        Known { entries }
    }
    pub fn matches(&self, id: &str, v: &Violation) -> Option<String> {
        for e in &self.entries {
            if e["status"].as_str() != Some("known") {
                continue; // "fixed" entries suppress nothing
            }
            if e["property"].as_str() == Some(id) && e["kind"].as_str() == Some(&v.kind) && e["case"] == v.case {
                return Some(e["what"].as_str().unwrap_or("").to_string());
            }
        }
        None
    }
}

pub fn hash_str(s: &str) -> u64 {
    // FNV-1a, stable across runs
    let mut h: u64 = 0xcbf29ce484222325;
    for b in s.bytes() {
        h ^= b as u64;
        h = h.wrapping_mul(0x100000001b3);
    }
    h
}

fn write_replay(id: &str, v: &Violation) -> String {
    let dir = Path::new(&verif_dir()).join("replays");
    let _ = std::fs::create_dir_all(&dir);
    let key = format!("{}|{}", v.kind, v.case);
    let p = dir.join(format!("{}-{:016x}.json", id, hash_str(&key)));
    let body = json!({"property": id, "kind": v.kind, "case": v.case, "detail": v.detail});
    let _ = std::fs::write(&p, serde_json::to_string_pretty(&body).unwrap());
    p.to_string_lossy().to_string()
}

pub fn parent_main(spec: &Spec, tier: Tier, seed: u64) -> i32 {
    let start = Instant::now();
    let nshards = (spec.nshards)(tier).max(1);
    let dir = scratch_dir(spec.id);
    let exe = std::env::current_exe().expect("current_exe");
    let total_cap = Duration::from_secs(match tier {
        Tier::Quick => 3600,
        Tier::Thorough => 12 * 3600,
    });
    let maxpar: usize = std::env::var("VERIF_JOBS").ok().and_then(|s| s.parse().ok()).unwrap_or(16);
    let mut pending: Vec<usize> = (0..nshards).rev().collect();
    let mut running: Vec<(usize, std::process::Child)> = vec![];
    let mut results: Vec<Value> = vec![];
    let mut machinery_failure = false;
    let mut crash_violations: Vec<Violation> = vec![];

    while !pending.is_empty() || !running.is_empty() {
        while running.len() < maxpar && !pending.is_empty() {
            let k = pending.pop().unwrap();
            // every worker runs under an address-space limit so that a runaway allocation
            // in the crate under test aborts that worker instead of exhausting the machine
            let child = std::process::Command::new("/bin/sh")
                .arg("-c")
                .arg("ulimit -v 16777216 2>/dev/null; exec \"$0\" \"$@\"")
                .arg(&exe)
                .arg("--worker")
                .arg(spec.id)
                .arg(tier.name())
                .arg(seed.to_string())
                .arg(k.to_string())
                .arg(nshards.to_string())
                .arg(&dir)
                .stdin(std::process::Stdio::null())
                .spawn();
            match child {
                Ok(c) => running.push((k, c)),
                Err(e) => {
                    eprintln!("cannot start worker {}: {}", k, e);
                    machinery_failure = true;
                }
            }
        }
        let mut i = 0;
        let mut progressed = false;
        while i < running.len() {
            match running[i].1.try_wait() {
                Ok(Some(status)) => {
                    let (k, _) = running.swap_remove(i);
                    progressed = true;
                    let rp = dir.join(format!("result-{}.json", k));
                    let parsed = std::fs::read_to_string(&rp).ok().and_then(|s| serde_json::from_str::<Value>(&s).ok());
                    match (status.code(), parsed) {
                        (Some(0), Some(v)) => results.push(v),
                        (Some(2), _) => {
                            eprintln!("worker {} reported a harness failure", k);
                            machinery_failure = true;
                        }
                        (code, _) => {
                            // crashed: abort, stack overflow, killed by signal
                            let ann = read_announce(&dir.join(format!("announce-{}.txt", k)));
                            match ann {
                                Some(s) => {
                                    let case: Value = serde_json::from_str(&s).unwrap_or(Value::String(s));
                                    crash_violations.push(Violation {
                                        kind: "abort".into(),
                                        case,
                                        detail: format!("worker process died (exit code {:?}, status {}) while running this case", code, status),
                                        weight: 0,
                                    });
                                }
                                None => {
                                    eprintln!("worker {} died ({}) before announcing any case", k, status);
                                    machinery_failure = true;
                                }
                            }
                        }
                    }
                }
                Ok(None) => i += 1,
                Err(e) => {
                    eprintln!("wait failed: {}", e);
                    machinery_failure = true;
                    running.swap_remove(i);
                }
            }
        }
        if start.elapsed() > total_cap {
            for (k, c) in running.iter_mut() {
                let _ = c.kill();
                let _ = c.wait();
                let ann = read_announce(&dir.join(format!("announce-{}.txt", k)));
                let case: Value = ann.map(|s| serde_json::from_str(&s).unwrap_or(Value::String(s))).unwrap_or(Value::Null);
                crash_violations.push(Violation {
                    kind: "timeout".into(),
                    case,
                    detail: format!("worker exceeded the total wall cap of {} s", total_cap.as_secs()),
                    weight: 0,
                });
            }
            running.clear();
            pending.clear();
        }
        if !progressed {
            std::thread::sleep(Duration::from_millis(20));
        }
    }
    let _ = std::fs::remove_dir_all(&dir);

    if machinery_failure {
        eprintln!("MACHINERY FAILURE in check {} ({}): no verdict", spec.id, tier.name());
        return 2;
    }

    let mut m = merge(&results);
    for v in crash_violations {
        *m.kind_counts.entry(v.kind.clone()).or_insert(0) += 1;
        m.violations.insert(0, v);
    }
    finish(spec, tier, seed, m, start.elapsed().as_secs_f64())
}

pub fn finish(spec: &Spec, tier: Tier, seed: u64, m: Merged, wall: f64) -> i32 {
    let known = Known::load();
    let mut unknown: Vec<&Violation> = vec![];
    let mut known_lines: Vec<String> = vec![];
    for v in &m.violations {
        match known.matches(spec.id, v) {
            Some(what) => {
                let line = format!("KNOWN-FINDING: property={} {}", spec.id, what);
                if !known_lines.contains(&line) {
                    known_lines.push(line);
                }
            }
            None => unknown.push(v),
        }
    }
    // kinds whose recorded violations are all known may still hide unrecorded unknown ones
    // (only the first few per kind are kept); be conservative: if a kind has more
    // occurrences than known matches recorded for it, report the remainder as unknown.
    let mut extra_unknown: Vec<String> = vec![];
    for (kind, &n) in &m.kind_counts {
        let recorded = m.violations.iter().filter(|v| &v.kind == kind).count() as u64;
        let recorded_known = m.violations.iter().filter(|v| &v.kind == kind && known.matches(spec.id, v).is_some()).count() as u64;
        if n > recorded && recorded_known == recorded && recorded > 0 {
            extra_unknown.push(format!("{} further violation(s) of kind {} beyond the listed known findings", n - recorded, kind));
        }
    }

    let total_violations: u64 = m.kind_counts.values().sum();
    let exhaustive = m.caps_hit.is_empty();
    let mut coverage = Map::new();
    coverage.insert("states".into(), json!(m.states.max(1)));
    coverage.insert("transitions".into(), json!(m.transitions.max(1)));
    coverage.insert("traces_validated_against_impl".into(), json!(m.traces));
    coverage.insert("evaluations".into(), json!(m.evaluations.max(1)));
    coverage.insert("distinct_nontrivial".into(), json!(m.nontrivial));
    coverage.insert("rule".into(), json!(spec.rule));
    coverage.insert("samples".into(), json!(if m.samples.is_empty() { vec![json!("<no sample recorded>")] } else { m.samples.clone() }));
    coverage.insert("exhaustive".into(), json!(exhaustive));
    coverage.insert("bounds".into(), (spec.bounds)(tier));
    coverage.insert("caps_hit".into(), json!(m.caps_hit));
    coverage.insert("counters".into(), json!(m.counters));
    coverage.insert("maxima".into(), json!(m.maxima));
    coverage.insert("notes".into(), json!(m.notes));
    coverage.insert("violation_kinds".into(), json!(m.kind_counts));
    coverage.insert(
        "explanation".into(),
        json!("states = distinct cases enumerated and executed against the real crate; transitions = crate operations executed on them; traces_validated_against_impl = operations whose result was compared with the reference model in lock-step (there is no separate abstract model to replay)"),
    );
    let evidence = json!({
        "property_id": spec.id,
        "tier": tier.name(),
        "seed": seed,
        "level": "model_checking",
        "coverage": Value::Object(coverage),
        "assumptions": spec.assumptions,
        "wall_s": (wall * 1000.0).round() / 1000.0,
        "violations": total_violations,
        "known_findings_reported": known_lines.len(),
    });
    let edir = Path::new(&verif_dir()).join("evidence");
    let _ = std::fs::create_dir_all(&edir);
    let epath = edir.join(format!("{}.json", spec.id));
    if let Err(e) = std::fs::write(&epath, serde_json::to_string_pretty(&evidence).unwrap() + "\n") {
        eprintln!("cannot write evidence: {}", e);
        return 2;
    }

    println!(
        "check {} tier={} seed={} cases={} nontrivial={} ops={} compared={} wall={:.1}s exhaustive={}",
        spec.id, tier.name(), seed, m.evaluations, m.nontrivial, m.transitions, m.traces, wall, exhaustive
    );
    for (k, v) in &m.counters {
        println!("  {} = {}", k, v);
    }
    for (k, v) in &m.maxima {
        println!("  max {} = {}", k, v);
    }
    for n in &m.notes {
        println!("  note: {}", n);
    }
    for c in &m.caps_hit {
        println!("  CAP HIT: {}", c);
    }
    for l in &known_lines {
        println!("{}", l);
    }
    if unknown.is_empty() && extra_unknown.is_empty() {
        if known_lines.is_empty() {
            println!("OK property={} held on everything explored", spec.id);
        } else {
            println!("OK property={}: no violation other than the {} recorded finding(s) above", spec.id, known_lines.len());
        }
        0
    } else {
        for (k, n) in &m.kind_counts {
            println!("  violations of kind {}: {}", k, n);
        }
        // one VIOLATION line per kind (the simplest case of that kind), at most 6 lines
        let mut seen_kinds: Vec<&str> = vec![];
        for v in &unknown {
            if seen_kinds.contains(&v.kind.as_str()) || seen_kinds.len() >= 6 {
                continue;
            }
            seen_kinds.push(&v.kind);
            let p = write_replay(spec.id, v);
            println!("  [{}] {} :: {}", v.kind, v.case, v.detail);
            println!("VIOLATION property={} replay={}", spec.id, p);
        }
        for e in &extra_unknown {
            println!("  {}", e);
            println!("VIOLATION property={} replay={}", spec.id, epath.to_string_lossy());
        }
        1
    }
}

pub fn replay_main(spec: &Spec, path: &str) -> i32 {
    silence_panics();
    let body: Value = match std::fs::read_to_string(path).ok().and_then(|s| serde_json::from_str(&s).ok()) {
        Some(v) => v,
        None => {
            eprintln!("cannot read replay file {}", path);
            return 2;
        }
    };
    let mut ctx = Ctx::new(Tier::Quick, 0, 0, 1, None);
    ctx.replaying = true;
    let r = catch_unwind(AssertUnwindSafe(|| (spec.replay)(&mut ctx, &body["case"])));
    if let Err(e) = r {
        eprintln!("HARNESS PANIC during replay: {}", panic_message(&e));
        return 2;
    }
    println!("replayed {} case(s), {} operation(s)", ctx.evaluations, ctx.transitions);
    if ctx.nviolations() == 0 {
        println!("OK replay of {} shows no violation", path);
        0
    } else {
        for v in &ctx.violations {
            println!("  [{}] {} :: {}", v.kind, v.case, v.detail);
        }
        println!("VIOLATION property={} replay={}", spec.id, path);
        1
    }
}
