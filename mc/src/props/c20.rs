//! C20 — union-find partitions track exactly the unions performed (explicit-state search).

use crate::engine::*;
use rust_dsymbols::util::partitions::{IntPartition, Partition};
use serde_json::{json, Value};
use stateright::{Checker, Model, Property};
use std::hash::{Hash, Hasher};

pub fn spec() -> Spec {
    Spec {
        id: "C20",
        run,
        replay,
        nshards: |_| 16,
        case_cap_s: |t| t.pick(600, 7200),
        rule: "states are operation histories over up to two instances (original + one clone) of Partition<u8> and IntPartition driven in lock-step; mode 'fixpoint' (stateright BFS) keys a history by the hook snapshot of every instance's internal forest (elements, parent, rank) plus the reference partition and runs to the fixpoint, so every reachable internal state is visited; mode 'histories' enumerates every history up to a depth with no merging and observes only through the public API; mode 'unions' enumerates every sequence of unions of distinct elements over 6 elements to a depth on one instance (union by rank needs 6 elements to unite a non-root of a rank-1 class with a rank-2 class); mode 'deep' is a hand-written parallel breadth-first search over the INTERNAL states (hook snapshots of both structures + reference partition) of one instance over 8 elements, all unions, with at most F finds interleaved (deviation bound; finds are otherwise only made on throw-away clones for observation), restricted to histories whose first uses of elements occur in increasing order (union by rank needs 8 elements for a tree of depth 3), run to the fixpoint; a counterexample is rebuilt from predecessor links and re-validated by a plain replay. In every state: same representative <=> connected by the unions applied to that instance; representative is a member of its class; classes() is the first-occurrence grouping for every duplicate-free query of <= 3 elements; on every transition: representatives of classes not touched by a union are unchanged, on both instances. Non-trivial state = at least one union of two different classes happened.",
        assumptions: &["fixpoint mode reads the internal arrays through the cfg-gated verif_snapshot hook; the histories mode does not use the hook and cross-checks it"],
        bounds: |t| json!({"fixpoint_universe": t.pick(3, 4), "instances": 2, "histories_universe": 3, "histories_depth": t.pick(5, 6), "unions_universe": 6, "unions_depth": t.pick(5, 6), "single_instance_fixpoint_universe_thorough": 5, "deep_universe": 8, "deep_max_finds": t.pick(0, 2), "deep_restriction": "first uses of elements in increasing order (one history per relabeling class)"}),
    }
}

#[derive(Clone, Debug, PartialEq, Eq, Hash)]
pub enum Op {
    Unite(usize, u8, u8),
    Find(usize, u8),
    CloneFrom(usize),
}

impl Op {
    fn to_json(&self) -> Value {
        match self {
            Op::Unite(k, a, b) => json!({"op": "unite", "instance": k, "a": a, "b": b}),
            Op::Find(k, a) => json!({"op": "find", "instance": k, "a": a}),
            Op::CloneFrom(k) => json!({"op": "clone", "instance": k}),
        }
    }
    fn from_json(v: &Value) -> Option<Op> {
        let k = v["instance"].as_u64()? as usize;
        match v["op"].as_str()? {
            "unite" => Some(Op::Unite(k, v["a"].as_u64()? as u8, v["b"].as_u64()? as u8)),
            "find" => Some(Op::Find(k, v["a"].as_u64()? as u8)),
            "clone" => Some(Op::CloneFrom(k)),
            _ => None,
        }
    }
}

type Snap = (Vec<u8>, Vec<usize>, Vec<usize>);
type ISnap = (Vec<usize>, Vec<usize>);

struct Real {
    ps: Vec<Partition<u8>>,
    ips: Vec<IntPartition>,
    /// reference: class id per element, per instance
    rf: Vec<Vec<u8>>,
}

fn fresh(u: u8) -> Real {
    Real { ps: vec![Partition::new()], ips: vec![IntPartition::new()], rf: vec![(0..u).collect()] }
}

fn apply(r: &mut Real, op: &Op) -> bool {
    // returns true if the operation merged two different classes
    match op {
        Op::Unite(k, a, b) => {
            r.ps[*k].unite(a, b);
            r.ips[*k].unite(*a as usize, *b as usize);
            let (ca, cb) = (r.rf[*k][*a as usize], r.rf[*k][*b as usize]);
            for x in r.rf[*k].iter_mut() {
                if *x == cb {
                    *x = ca;
                }
            }
            ca != cb
        }
        Op::Find(k, a) => {
            let _ = r.ps[*k].find(a);
            let _ = r.ips[*k].find(*a as usize);
            false
        }
        Op::CloneFrom(k) => {
            let c = r.ps[*k].clone();
            r.ps.push(c);
            let c = r.ips[*k].clone();
            r.ips.push(c);
            let c = r.rf[*k].clone();
            r.rf.push(c);
            false
        }
    }
}

/// destructive observation through the public API (find on every element)
fn observe(u: u8, r: &Real) -> (Vec<Vec<u8>>, Vec<Vec<usize>>) {
    (
        r.ps.iter().map(|p| (0..u).map(|x| p.find(&x)).collect()).collect(),
        r.ips.iter().map(|p| (0..u as usize).map(|x| p.find(x)).collect()).collect(),
    )
}

fn seqs3(u: u8) -> Vec<Vec<u8>> {
    let mut out = vec![];
    for a in 0..u {
        out.push(vec![a]);
        for b in 0..u {
            if b != a {
                out.push(vec![a, b]);
                for c in 0..u {
                    if c != a && c != b {
                        out.push(vec![a, b, c]);
                    }
                }
            }
        }
    }
    out
}

/// state predicates on the observations of one history
fn check_state(u: u8, r: &Real, obs: &(Vec<Vec<u8>>, Vec<Vec<usize>>), with_classes: bool) -> Option<String> {
    let n = u as usize;
    for k in 0..r.rf.len() {
        let rf = &r.rf[k];
        let o = &obs.0[k];
        let io = &obs.1[k];
        for x in 0..n {
            if (o[x] as usize) >= n || rf[o[x] as usize] != rf[x] {
                return Some(format!("Partition instance {}: representative {} of {} is not a member of its class", k, o[x], x));
            }
            if io[x] >= n || rf[io[x]] != rf[x] {
                return Some(format!("IntPartition instance {}: representative {} of {} is not a member of its class", k, io[x], x));
            }
            for y in 0..n {
                if (o[x] == o[y]) != (rf[x] == rf[y]) {
                    return Some(format!("Partition instance {}: find({}) = {}, find({}) = {}, but connected = {}", k, x, o[x], y, o[y], rf[x] == rf[y]));
                }
                if (io[x] == io[y]) != (rf[x] == rf[y]) {
                    return Some(format!("IntPartition instance {}: find({}) = {}, find({}) = {}, but connected = {}", k, x, io[x], y, io[y], rf[x] == rf[y]));
                }
            }
        }
        if with_classes {
            // every duplicate-free query of <= 3 elements for universes of <= 3 elements; for larger universes
            // (fixpoint runs with tens of millions of transitions) the two full queries in both orders
            let queries: Vec<Vec<u8>> = if u <= 3 { seqs3(u) } else { vec![(0..u).collect(), (0..u).rev().collect(), vec![u - 1, 0, u / 2]] };
            for q in queries {
                let mut exp: Vec<Vec<u8>> = vec![];
                for &e in &q {
                    if let Some(c) = exp.iter_mut().find(|c| rf[c[0] as usize] == rf[e as usize]) {
                        c.push(e);
                    } else {
                        exp.push(vec![e]);
                    }
                }
                let got = r.ps[k].classes(&q);
                if got != exp {
                    return Some(format!("Partition instance {}: classes({:?}) = {:?}, expected {:?}", k, q, got, exp));
                }
                let qi: Vec<usize> = q.iter().map(|&x| x as usize).collect();
                let expi: Vec<Vec<usize>> = exp.iter().map(|c| c.iter().map(|&x| x as usize).collect()).collect();
                let goti = r.ips[k].classes(&qi);
                if goti != expi {
                    return Some(format!("IntPartition instance {}: classes({:?}) = {:?}, expected {:?}", k, qi, goti, expi));
                }
            }
        }
    }
    None
}

/// transition predicate: representatives of classes that the last operation did not change stay the same
fn check_stability(u: u8, rf_before: &Vec<Vec<u8>>, before: &(Vec<Vec<u8>>, Vec<Vec<usize>>), r: &Real, after: &(Vec<Vec<u8>>, Vec<Vec<usize>>), op: &Op) -> Option<String> {
    let n = u as usize;
    for k in 0..rf_before.len() {
        for x in 0..n {
            let unchanged = (0..n).all(|y| (rf_before[k][x] == rf_before[k][y]) == (r.rf[k][x] == r.rf[k][y]));
            if unchanged {
                if before.0[k][x] != after.0[k][x] {
                    return Some(format!("Partition instance {}: representative of {} changed from {} to {} by {:?}, which does not touch its class", k, x, before.0[k][x], after.0[k][x], op));
                }
                if before.1[k][x] != after.1[k][x] {
                    return Some(format!("IntPartition instance {}: representative of {} changed from {} to {} by {:?}, which does not touch its class", k, x, before.1[k][x], after.1[k][x], op));
                }
            }
        }
    }
    if let Op::CloneFrom(k) = op {
        // the clone starts with the representatives of its original
        let c = r.rf.len() - 1;
        if after.0[c] != after.0[*k] || after.1[c] != after.1[*k] {
            return Some(format!("a fresh clone of instance {} reports different representatives than its original", k));
        }
    }
    None
}

fn replay_hist(u: u8, hist: &[Op]) -> Real {
    let mut r = fresh(u);
    for op in hist {
        apply(&mut r, op);
    }
    r
}

/// Black-box check of one history: observations of the history and of its one-shorter
/// prefix come from *separate* replays on fresh objects, so observing never perturbs a
/// history and `clone` is not trusted for observation.
pub fn check_history(u: u8, hist: &[Op]) -> Option<String> {
    let r = replay_hist(u, hist);
    let obs = observe(u, &r);
    if let Some(e) = check_state(u, &r, &obs, true) {
        return Some(e);
    }
    if let Some((last, prefix)) = hist.split_last() {
        let rp = replay_hist(u, prefix);
        let obs_p = observe(u, &rp);
        if let Some(e) = check_stability(u, &rp.rf, &obs_p, &r, &obs, last) {
            return Some(e);
        }
    }
    // (in the fixpoint runs over 4 and more elements, with tens of millions of transitions, only the short histories)
    if u <= 3 || hist.len() <= 5 {
        check_wild_classes(u, hist)
    } else {
        None
    }
}

/// classes() asked BEFORE any observing find, on a third separate replay of the history: queries with repeated
/// elements and with elements the instance has never seen (the element u lies outside the universe of the
/// history).  Which query comes first (and so meets the untouched instance) rotates with the history.  A repeated
/// element may be listed once or once per occurrence - the statement only says that the listing partitions the
/// queried elements - so repeats are removed from each returned class before the comparison; what is required is
/// that the classes are disjoint, group exactly the connected elements and come in first-occurrence order.
fn check_wild_classes(u: u8, hist: &[Op]) -> Option<String> {
    let n = u as usize;
    let rq = replay_hist(u, hist);
    let a = 0u8;
    let b = u.saturating_sub(1);
    let mut queries: Vec<Vec<u8>> = vec![
        vec![u, u],
        vec![a, a],
        vec![b, a, b],
        vec![u, b, u, a],
        vec![a, u, b, a, u + 1, u],
        vec![u + 1, a],
        (0..=u).rev().chain(0..=u).collect(),
    ];
    let rot = hist.iter().map(|o| match o { Op::Unite(k, x, y) => 1 + *k + *x as usize * 3 + *y as usize * 7, Op::Find(k, x) => 2 + *k + *x as usize * 5, Op::CloneFrom(_) => 11 }).sum::<usize>() % queries.len();
    queries.rotate_left(rot);
    fn dedup<T: PartialEq + Copy>(c: &[T]) -> Vec<T> {
        let mut o: Vec<T> = vec![];
        for &x in c {
            if !o.contains(&x) {
                o.push(x);
            }
        }
        o
    }
    for k in 0..rq.rf.len() {
        let rf = &rq.rf[k];
        let cls = |e: u8| -> i32 { if (e as usize) < n { rf[e as usize] as i32 } else { 1000 + e as i32 } };
        for q in &queries {
            let mut exp: Vec<Vec<u8>> = vec![];
            for &e in &dedup(q) {
                if let Some(c) = exp.iter_mut().find(|c| cls(c[0]) == cls(e)) {
                    c.push(e);
                } else {
                    exp.push(vec![e]);
                }
            }
            let got = rq.ps[k].classes(q);
            let gotn: Vec<Vec<u8>> = got.iter().map(|c| dedup(c)).collect();
            if gotn != exp {
                return Some(format!("Partition instance {}: classes({:?}) asked before any find = {:?}, expected {:?} (repeats within a class ignored)", k, q, got, exp));
            }
            let qi: Vec<usize> = q.iter().map(|&x| x as usize).collect();
            let expi: Vec<Vec<usize>> = exp.iter().map(|c| c.iter().map(|&x| x as usize).collect()).collect();
            let goti = rq.ips[k].classes(&qi);
            let gotin: Vec<Vec<usize>> = goti.iter().map(|c| dedup(c)).collect();
            if gotin != expi {
                return Some(format!("IntPartition instance {}: classes({:?}) asked before any find = {:?}, expected {:?} (repeats within a class ignored)", k, qi, goti, expi));
            }
        }
    }
    None
}

// --- fixpoint mode (stateright) ---------------------------------------------------------

#[derive(Clone, Debug)]
pub struct St {
    hist: Vec<Op>,
    snaps: Vec<Snap>,
    isnaps: Vec<ISnap>,
    rf: Vec<Vec<u8>>,
    bad: Option<String>,
}

impl PartialEq for St {
    fn eq(&self, o: &Self) -> bool {
        self.snaps == o.snaps && self.isnaps == o.isnaps && self.rf == o.rf && self.bad.is_some() == o.bad.is_some()
    }
}
impl Eq for St {}
impl Hash for St {
    fn hash<H: Hasher>(&self, h: &mut H) {
        self.snaps.hash(h);
        self.isnaps.hash(h);
        self.rf.hash(h);
        self.bad.is_some().hash(h);
    }
}

struct M {
    u: u8,
    max_instances: usize,
}

fn build_state(u: u8, hist: Vec<Op>) -> St {
    let r = replay_hist(u, &hist);
    let snaps: Vec<Snap> = r.ps.iter().map(|p| p.verif_snapshot()).collect();
    let isnaps: Vec<ISnap> = r.ips.iter().map(|p| p.verif_snapshot()).collect();
    let bad = match crate::engine::in_subject(|| std::panic::catch_unwind(std::panic::AssertUnwindSafe(|| check_history(u, &hist)))) {
        Ok(b) => b,
        Err(e) => Some(format!("panic: {}", panic_message(&e))),
    };
    St { hist, snaps, isnaps, rf: r.rf, bad }
}

impl Model for M {
    type State = St;
    type Action = Op;
    fn init_states(&self) -> Vec<St> {
        vec![build_state(self.u, vec![])]
    }
    fn actions(&self, s: &St, acts: &mut Vec<Op>) {
        if s.bad.is_some() {
            return;
        }
        for k in 0..s.rf.len() {
            for a in 0..self.u {
                acts.push(Op::Find(k, a));
                for b in a..self.u {
                    acts.push(Op::Unite(k, a, b));
                    if b != a {
                        acts.push(Op::Unite(k, b, a));
                    }
                }
            }
        }
        if s.rf.len() < self.max_instances {
            acts.push(Op::CloneFrom(0));
        }
    }
    fn next_state(&self, s: &St, a: Op) -> Option<St> {
        let mut hist = s.hist.clone();
        hist.push(a);
        Some(build_state(self.u, hist))
    }
    fn properties(&self) -> Vec<Property<Self>> {
        vec![Property::always("oracle", |_, s: &St| s.bad.is_none())]
    }
}

fn hist_json(u: u8, hist: &[Op]) -> Value {
    json!({"universe": u, "history": hist.iter().map(|o| o.to_json()).collect::<Vec<_>>()})
}

fn run_fixpoint(ctx: &mut Ctx, u: u8, max_instances: usize) {
    ctx.announce(&json!({"mode": "fixpoint", "universe": u, "instances": max_instances}));
    let threads = std::thread::available_parallelism().map(|n| n.get()).unwrap_or(4).min(16);
    let mut counts = vec![];
    // run twice and compare the counts: a nondeterministic model would make stateright's
    // path reconstruction (re-execution) unreliable
    // (the second run is skipped for the large thorough-tier spaces: it doubles an hour-scale cost)
    let rounds = if u as usize * max_instances > 6 { 1 } else { 2 };
    for _ in 0..rounds {
        let c = M { u, max_instances }.checker().threads(threads).spawn_bfs().join();
        counts.push((c.unique_state_count(), c.max_depth()));
        if let Some(p) = c.discovery("oracle") {
            let acts: Vec<Op> = p.into_actions();
            let why = check_history(u, &acts).unwrap_or_else(|| "violation not reproduced on replay".into());
            ctx.violation("partition", hist_json(u, &acts), why, acts.len() as u64);
            return;
        }
        if counts.len() == 1 {
            ctx.states += c.unique_state_count() as u64;
            ctx.transitions += c.state_count() as u64;
            ctx.traces += c.state_count() as u64;
            ctx.evaluations += c.unique_state_count() as u64;
            ctx.add(&format!("fixpoint_u{}_i{}_states", u, max_instances), c.unique_state_count() as i64);
            ctx.add(&format!("fixpoint_u{}_i{}_generated", u, max_instances), c.state_count() as i64);
            ctx.max(&format!("fixpoint_u{}_i{}_depth", u, max_instances), c.max_depth() as i64);
        }
    }
    // (max_depth may differ between parallel BFS runs; the set of states may not)
    if counts.len() == 2 && counts[0].0 != counts[1].0 {
        panic!("stateright runs disagree: {:?}", counts);
    }
}

fn run_histories(ctx: &mut Ctx, u: u8, depth: usize) {
    // plain DFS over all histories, no merging; every history is checked black-box
    fn actions(u: u8, ninst: usize) -> Vec<Op> {
        let mut acts = vec![];
        for k in 0..ninst {
            for a in 0..u {
                acts.push(Op::Find(k, a));
                for b in 0..u {
                    acts.push(Op::Unite(k, a, b));
                }
            }
        }
        if ninst < 2 {
            acts.push(Op::CloneFrom(0));
        }
        acts
    }
    /// (number of instances, "some union merged two classes") after appending `a`
    fn step_info(u: u8, hist: &[Op], a: &Op, ninst: usize, merged: bool) -> (usize, bool) {
        match a {
            Op::CloneFrom(_) => (ninst + 1, merged),
            Op::Unite(k, x, y) => {
                let mut rf: Vec<Vec<u8>> = vec![(0..u).collect()];
                for op in hist.iter() {
                    if let Op::CloneFrom(j) = op {
                        let c = rf[*j].clone();
                        rf.push(c);
                    } else if let Op::Unite(j, p, q) = op {
                        let (cp, cq) = (rf[*j][*p as usize], rf[*j][*q as usize]);
                        for z in rf[*j].iter_mut() {
                            if *z == cq {
                                *z = cp;
                            }
                        }
                    }
                }
                (ninst, merged || rf[*k][*x as usize] != rf[*k][*y as usize])
            }
            _ => (ninst, merged),
        }
    }
    fn rec(ctx: &mut Ctx, u: u8, depth: usize, hist: &mut Vec<Op>, ninst: usize, merged: bool) {
        // histories are sharded over the workers by their first two operations
        if hist.len() == 2 && !ctx.take() {
            return;
        }
        if hist.len() < 2 && ctx.shard != 0 && !ctx.replaying {
            // shared prefixes are checked and counted by worker 0 only
            for a in actions(u, ninst) {
                let (ni, m) = step_info(u, hist, &a, ninst, merged);
                hist.push(a);
                rec(ctx, u, depth, hist, ni, m);
                hist.pop();
            }
            return;
        }
        ctx.evaluations += 1;
        ctx.states += 1;
        if merged {
            ctx.nontrivial += 1;
        }
        ctx.transitions += 1;
        ctx.traces += 1;
        if hist.len() <= 2 {
            ctx.announce(&json!({"mode": "histories", "prefix": hist.iter().map(|o| o.to_json()).collect::<Vec<_>>()}));
        }
        match crate::engine::in_subject(|| std::panic::catch_unwind(std::panic::AssertUnwindSafe(|| check_history(u, hist)))) {
            Ok(None) => {}
            Ok(Some(why)) => {
                ctx.violation("partition", hist_json(u, hist), why, hist.len() as u64);
                return;
            }
            Err(e) => {
                ctx.violation("panic:partition", hist_json(u, hist), panic_message(&e), hist.len() as u64);
                return;
            }
        }
        if ctx.want_sample() && hist.len() == 4 && merged {
            ctx.sample(hist_json(u, hist));
        }
        if hist.len() == depth || ctx.nviolations() > 0 {
            return;
        }
        for a in actions(u, ninst) {
            let (ni, m) = step_info(u, hist, &a, ninst, merged);
            hist.push(a);
            rec(ctx, u, depth, hist, ni, m);
            hist.pop();
        }
    }
    rec(ctx, u, depth, &mut vec![], 1, false);
}

/// mode 'unions': every sequence of `depth` unions of two different elements over a universe of `u`
/// elements on one instance (no merging, black box): union by rank only reaches rank 2 with 4 elements
/// and needs 6 to unite a non-root of a rank-1 class with a rank-2 class, which the small universes of
/// the other modes cannot produce.  Checked after every prefix: same representative <=> connected,
/// representative is a member, representatives of untouched classes unchanged, classes() on two queries.
fn run_unions(ctx: &mut Ctx, u: u8, depth: usize) {
    let pairs: Vec<(u8, u8)> = (0..u).flat_map(|a| (0..u).filter(move |&b| b != a).map(move |b| (a, b))).collect();
    fn rec(ctx: &mut Ctx, u: u8, depth: usize, pairs: &[(u8, u8)], hist: &mut Vec<Op>) {
        if hist.len() == 2 && !ctx.take() {
            return;
        }
        if hist.len() >= 2 || ctx.shard == 0 || ctx.replaying {
            ctx.evaluations += 1;
            ctx.states += 1;
            ctx.nontrivial += if hist.is_empty() { 0 } else { 1 };
            ctx.transitions += 1;
            ctx.traces += 1;
            if hist.len() <= 2 {
                ctx.announce(&json!({"mode": "unions", "universe": u, "prefix": hist.iter().map(|o| o.to_json()).collect::<Vec<_>>()}));
            }
            let res = crate::engine::catch_subject(|| {
                let r = replay_hist(u, hist);
                let obs = observe(u, &r);
                if let Some(e) = check_state(u, &r, &obs, false) {
                    return Some(e);
                }
                // classes() on the two natural queries
                let all: Vec<u8> = (0..u).collect();
                let rev: Vec<u8> = (0..u).rev().collect();
                for q in [all, rev] {
                    let mut exp: Vec<Vec<u8>> = vec![];
                    for &e in &q {
                        if let Some(c) = exp.iter_mut().find(|c| r.rf[0][c[0] as usize] == r.rf[0][e as usize]) {
                            c.push(e);
                        } else {
                            exp.push(vec![e]);
                        }
                    }
                    if r.ps[0].classes(&q) != exp {
                        return Some(format!("Partition: classes({:?}) = {:?}, expected {:?}", q, r.ps[0].classes(&q), exp));
                    }
                    let qi: Vec<usize> = q.iter().map(|&x| x as usize).collect();
                    let expi: Vec<Vec<usize>> = exp.iter().map(|c| c.iter().map(|&x| x as usize).collect()).collect();
                    if r.ips[0].classes(&qi) != expi {
                        return Some(format!("IntPartition: classes({:?}) = {:?}, expected {:?}", qi, r.ips[0].classes(&qi), expi));
                    }
                }
                if let Some((last, prefix)) = hist.split_last() {
                    let rp = replay_hist(u, prefix);
                    let obs_p = observe(u, &rp);
                    if let Some(e) = check_stability(u, &rp.rf, &obs_p, &r, &obs, last) {
                        return Some(e);
                    }
                }
                None
            });
            match res {
                Ok(None) => {}
                Ok(Some(why)) => {
                    ctx.violation("partition", hist_json(u, hist), why, hist.len() as u64);
                    return;
                }
                Err(e) => {
                    ctx.violation("panic:partition", hist_json(u, hist), panic_message(&e), hist.len() as u64);
                    return;
                }
            }
        }
        if hist.len() == depth || ctx.nviolations() > 0 {
            return;
        }
        for &(a, b) in pairs {
            hist.push(Op::Unite(0, a, b));
            rec(ctx, u, depth, pairs, hist);
            hist.pop();
        }
    }
    rec(ctx, u, depth, &pairs, &mut vec![]);
}

// --- deep mode: breadth-first search over INTERNAL states of one instance ------------------------------

/// Explicit-state BFS over a larger universe.  A state is one live (Partition<u8>, IntPartition) pair driven in
/// lock-step; its key is the hook snapshot of both internal forests plus the reference partition, so two
/// histories are merged exactly when the implementation can no longer tell them apart (same arrays => same
/// futures).  Successors are produced with `clone` (whose result is compared with the original through the
/// hook; clone independence itself is checked by the other modes).  In every state: observation on a
/// throw-away clone (find on every element) against the reference; on every transition: stability of the
/// representatives of untouched classes, and find's return value against the observation.  A counterexample
/// is rebuilt from stored predecessor links and re-validated black-box by `check_history`.
fn run_deep(ctx: &mut Ctx, u: u8, max_finds: u8, state_cap: usize) {
    use std::collections::{HashMap, HashSet};
    ctx.announce(&json!({"mode": "deep", "universe": u, "max_finds": max_finds}));
    type Key = (Snap, ISnap, Vec<u8>, u8, u8);
    fn key_of(r: &Real, f: u8, used: u8) -> Key {
        (r.ps[0].verif_snapshot(), r.ips[0].verif_snapshot(), r.rf[0].clone(), f, used)
    }
    fn clone_real(r: &Real) -> Real {
        Real { ps: vec![r.ps[0].clone()], ips: vec![r.ips[0].clone()], rf: vec![r.rf[0].clone()] }
    }
    struct Node {
        id: u32,
        r: Real,
        finds: u8,
        used: u8,
    }
    // Real holds UnsafeCell-based structures; a node is only ever touched by the one thread that owns its chunk
    struct SendNode(Node);
    unsafe impl Send for SendNode {}
    struct Succ {
        parent: u32,
        opk: u16,
        key: Key,
        node: SendNode,
    }
    /// what one thread found wrong: (state id, last op index, message)
    type Bad = (u32, Option<u16>, String);
    let mut ops: Vec<Op> = vec![];
    for a in 0..u {
        ops.push(Op::Find(0, a));
        for b in 0..u {
            ops.push(Op::Unite(0, a, b));
        }
    }
    let mut pred: Vec<(u32, u16)> = vec![(u32::MAX, 0)];
    let mut index: HashMap<Key, u32> = HashMap::new();
    let r0 = fresh(u);
    index.insert(key_of(&r0, 0, 0), 0);
    let mut frontier: Vec<SendNode> = vec![SendNode(Node { id: 0, r: r0, finds: 0, used: 0 })];
    let mut transitions = 0u64;
    let mut depth = 0usize;
    let history_of = |pred: &Vec<(u32, u16)>, ops: &Vec<Op>, mut id: u32, last: Option<u16>| -> Vec<Op> {
        let mut h = vec![];
        while pred[id as usize].0 != u32::MAX {
            h.push(ops[pred[id as usize].1 as usize].clone());
            id = pred[id as usize].0;
        }
        h.reverse();
        if let Some(k) = last {
            h.push(ops[k as usize].clone());
        }
        h
    };
    let nthreads = std::thread::available_parallelism().map(|n| n.get()).unwrap_or(4).min(16);
    let mut capped = false;
    while !frontier.is_empty() {
        ctx.announce(&json!({"mode": "deep", "universe": u, "max_finds": max_finds, "depth": depth, "states": index.len()}));
        let chunk = (frontier.len() + nthreads - 1) / nthreads;
        let mut chunks: Vec<Vec<SendNode>> = vec![];
        let mut it = frontier.into_iter();
        loop {
            let c: Vec<SendNode> = it.by_ref().take(chunk.max(1)).collect();
            if c.is_empty() {
                break;
            }
            chunks.push(c);
        }
        let index_ref = &index;
        let ops_ref = &ops;
        let results: Vec<(Vec<Succ>, u64, Option<Bad>)> = std::thread::scope(|sc| {
            let hs: Vec<_> = chunks
                .into_iter()
                .map(|c| {
                    sc.spawn(move || {
                        let mut out: Vec<Succ> = vec![];
                        let mut local: HashSet<Key> = HashSet::new();
                        let mut trans = 0u64;
                        for SendNode(nd) in c {
                            let r = &nd.r;
                            let res = crate::engine::catch_subject(|| -> Option<Bad> {
                                let probe = clone_real(r);
                                if key_of(&probe, 0, 0) != key_of(r, 0, 0) {
                                    return Some((nd.id, None, "clone has a different internal state than its original".into()));
                                }
                                let obs = observe(u, &probe);
                                if let Some(why) = check_state(u, r, &obs, false) {
                                    return Some((nd.id, None, why));
                                }
                                for (k, op) in ops_ref.iter().enumerate() {
                                    let is_find = matches!(op, Op::Find(..));
                                    if is_find && nd.finds >= max_finds {
                                        continue;
                                    }
                                    let nf = nd.finds + is_find as u8;
                                    // first uses of elements occur in increasing order (one history per relabeling class)
                                    let nused = match op {
                                        Op::Find(_, a) => {
                                            if *a > nd.used {
                                                continue;
                                            }
                                            nd.used.max(*a + 1)
                                        }
                                        Op::Unite(_, a, b) => {
                                            if *a > nd.used {
                                                continue;
                                            }
                                            let ua = nd.used.max(*a + 1);
                                            if *b > ua {
                                                continue;
                                            }
                                            ua.max(*b + 1)
                                        }
                                        _ => nd.used,
                                    }
                                    .min(u);
                                    let mut t = clone_real(r);
                                    let ret: Option<(u8, usize)> = match op {
                                        Op::Find(_, a) => Some((t.ps[0].find(a), t.ips[0].find(*a as usize))),
                                        _ => {
                                            apply(&mut t, op);
                                            None
                                        }
                                    };
                                    trans += 1;
                                    let probe2 = clone_real(&t);
                                    let obs2 = observe(u, &probe2);
                                    let mut why = check_stability(u, &r.rf, &obs, &t, &obs2, op);
                                    if why.is_none() {
                                        if let (Some((pa, ia)), Op::Find(_, a)) = (ret, op) {
                                            if pa != obs.0[0][*a as usize] || ia != obs.1[0][*a as usize] {
                                                why = Some(format!("find({}) returned {} / {} (Partition / IntPartition) where the observation of the same state gives {} / {}", a, pa, ia, obs.0[0][*a as usize], obs.1[0][*a as usize]));
                                            }
                                        }
                                    }
                                    if why.is_none() {
                                        why = check_state(u, &t, &obs2, false);
                                    }
                                    if let Some(w) = why {
                                        return Some((nd.id, Some(k as u16), w));
                                    }
                                    let key = key_of(&t, nf, nused);
                                    if !index_ref.contains_key(&key) && local.insert(key.clone()) {
                                        out.push(Succ { parent: nd.id, opk: k as u16, key, node: SendNode(Node { id: 0, r: t, finds: nf, used: nused }) });
                                    }
                                }
                                None
                            });
                            match res {
                                Ok(None) => {}
                                Ok(Some(b)) => return (out, trans, Some(b)),
                                Err(e) => return (out, trans, Some((nd.id, None, format!("panic while expanding this state: {}", panic_message(&e))))),
                            }
                        }
                        (out, trans, None)
                    })
                })
                .collect();
            hs.into_iter().map(|h| h.join().expect("deep-mode thread")).collect()
        });
        let mut next: Vec<SendNode> = vec![];
        let mut bad: Option<Bad> = None;
        for (succ, trans, b) in results {
            transitions += trans;
            if let Some(b) = b {
                // shortest history first (BFS level is the same for all; take the smallest id)
                if bad.as_ref().map_or(true, |x| (b.0, b.1) < (x.0, x.1)) {
                    bad = Some(b);
                }
            }
            for sx in succ {
                if index.contains_key(&sx.key) {
                    continue;
                }
                if index.len() >= state_cap {
                    capped = true;
                    continue;
                }
                let nid = pred.len() as u32;
                index.insert(sx.key, nid);
                pred.push((sx.parent, sx.opk));
                let mut nd = sx.node;
                nd.0.id = nid;
                next.push(nd);
            }
        }
        if let Some((id, last, why)) = bad {
            let h = history_of(&pred, &ops, id, last);
            // re-validated black-box; if the plain replay does not show it, the internal check's message is kept
            let why2 = std::panic::catch_unwind(std::panic::AssertUnwindSafe(|| check_history(u, &h))).ok().flatten().unwrap_or(why);
            ctx.violation("partition", hist_json(u, &h), why2, h.len() as u64);
            return;
        }
        frontier = next;
        depth += 1;
    }
    if capped {
        ctx.cap_hit(format!("deep mode over {} elements stopped adding states at {} (all states up to that count were expanded)", u, state_cap));
    }
    ctx.states += index.len() as u64;
    ctx.transitions += transitions;
    ctx.traces += transitions;
    ctx.evaluations += index.len() as u64;
    ctx.nontrivial += index.len() as u64 - 1;
    ctx.add(&format!("deep_u{}_f{}_states", u, max_finds), index.len() as i64);
    ctx.add(&format!("deep_u{}_f{}_transitions", u, max_finds), transitions as i64);
    ctx.max(&format!("deep_u{}_f{}_depth", u, max_finds), depth as i64);
}

fn run(ctx: &mut Ctx) {
    let tier = ctx.tier;
    run_histories(ctx, 3, tier.pick(5, 6));
    if ctx.nviolations() == 0 {
        run_unions(ctx, 6, tier.pick(5, 6));
    }
    if ctx.nviolations() > 0 {
        return; // shortest counterexample comes from the hook-free DFS
    }
    if ctx.shard == 1 % ctx.nshards && !ctx.replaying {
        let u = std::env::var("VERIF_C20_DEEP").ok().and_then(|v| v.parse::<u8>().ok()).unwrap_or(8);
        let f = std::env::var("VERIF_C20_FINDS").ok().and_then(|v| v.parse::<u8>().ok()).unwrap_or(tier.pick(0, 2));
        run_deep(ctx, u, f, 40_000_000);
    }
    if ctx.shard == 0 || ctx.replaying {
        run_fixpoint(ctx, 3, 2);
        if tier.is_thorough() && ctx.nviolations() == 0 {
            // one instance over a larger universe (finds interleaved, every internal forest)
            run_fixpoint(ctx, 5, 1);
            run_fixpoint(ctx, 4, 2);
        }
    }
    // count non-trivial states of the fixpoint runs conservatively: not measured per state there
}

fn replay(ctx: &mut Ctx, case: &Value) {
    let u = case["universe"].as_u64().unwrap_or(3) as u8;
    let hist: Vec<Op> = case["history"].as_array().map(|a| a.iter().filter_map(Op::from_json).collect()).unwrap_or_default();
    ctx.count(true);
    ctx.ops(hist.len() as u64);
    // every prefix, shortest first
    for l in 0..=hist.len() {
        match ctx.guard(|| check_history(u, &hist[..l])) {
            Ok(None) => {}
            Ok(Some(why)) => {
                ctx.violation("partition", hist_json(u, &hist[..l]), why, l as u64);
                return;
            }
            Err(m) => {
                ctx.violation("panic:partition", hist_json(u, &hist[..l]), m, l as u64);
                return;
            }
        }
    }
}
