//! C02 — basic D-set queries agree with their definitions in every representation.

use crate::engine::*;
use crate::enumerate::symbols::*;
use crate::refmodel::dsym::*;
use crate::util::*;
use rust_dsymbols::covers::covers;
use rust_dsymbols::derived::{as_dset, as_dsym, as_partial_dsym};
use rust_dsymbols::dsets::{DSet, PartialDSet, SimpleDSet};
use rust_dsymbols::dsyms::{DSym, PartialDSym, SimpleDSym};
use rust_dsymbols::generators::dset_generators::DSets;
use rust_dsymbols::generators::dsym_generators::{DSyms, Geometries};
use serde_json::{json, Value};
use std::collections::BTreeSet;

pub fn spec() -> Spec {
    Spec {
        id: "C02",
        run,
        replay,
        nshards: |_| 16,
        case_cap_s: |t| t.pick(120, 600),
        rule: "every labeled tuple of involutions (dim 1-3) up to the size bound is one case per family: 'sym' = commuting tuples x all branching vectors in all symbol representations, queried at every (i,j,d) including out-of-range and |i-j|>1; 'set' = arbitrary tuples in the plain-set representations with every index subset x every duplicate-free seed sequence; 'partial' = every partial set (operations may be undefined on some chambers) of size <= 4 (dim 1), 3 [4] (dim 2), 3 (dim 3): op, r, completeness, and - an undefined operation being no edge - connectedness, looplessness, bipartiteness, orbits for every index subset and seed, orbit representatives for both seed orders; 'gen' = outputs of DSets/DSyms/covers in the representation they come in. Non-trivial = size >= 2 and connected.",
        assumptions: &["symbols are built through the crate's public constructors (build_set, build_sym_using_vs, From conversions); every op/v of the built object is compared with the reference tables before anything else"],
        bounds: |t| json!({"sym": {"dims": [1,2,3], "max_size": t.pick(3, 4), "V": [1,2,3], "V_at_size_4": [1,2], "huge_degrees": "sizes <= 2 [3], one orbit with v = 2^b-1, 2^b, 2^b+1 for b in 7,8,15,16,31,32,53,59"},
                            "set": {"dims": [1,2,3], "max_size": 4, "max_size_dim2_thorough": t.pick(4, 5)},
                            "partial": {"max_size": {"1": 4, "2": t.pick(3, 4), "3": 3}}, "gen": {"dsets_max_size": {"1": 6, "2": t.pick(5, 6), "3": t.pick(4, 5)}, "covers_max_sheets": 3}}),
    }
}

fn fail(ctx: &mut Ctx, kind: &str, case: &Value, detail: String, weight: u64) {
    ctx.violation(kind, case.clone(), detail, weight);
}

/// r / v / m / op tables of one symbol representation against the reference
fn check_sym_tables<T: DSym>(ctx: &mut Ctx, name: &str, t: &T, s: &RS, case: &Value) {
    let (n, dim) = (s.n, s.dim());
    let w = n as u64;
    if t.size() != n || t.dim() != dim {
        fail(ctx, "size-dim", case, format!("{}: size/dim {}/{} expected {}/{}", name, t.size(), t.dim(), n, dim), w);
        return;
    }
    let cur = std::cell::Cell::new((0usize, 0usize, 0usize, "op"));
    let nops = std::cell::Cell::new(0u64);
    let res = ctx.guard(|| {
        for i in 0..=dim + 1 {
            for d in 0..=n + 1 {
                cur.set((i, i, d, "op"));
                nops.set(nops.get() + 1);
                let exp = if i <= dim && d >= 1 && d <= n { Some(s.ops[i][d - 1] + 1) } else { None };
                let g = t.op(i, d);
                if g != exp {
                    return Some(("op", format!("{}: op({},{}) = {:?}, expected {:?}", name, i, d, g, exp)));
                }
            }
        }
        for i in 0..=dim + 1 {
            for j in 0..=dim + 1 {
                for d in 0..=n + 1 {
                    cur.set((i, j, d, "r/v/m"));
                    nops.set(nops.get() + 3);
                    let inr = i <= dim && j <= dim && d >= 1 && d <= n;
                    let exp_r = if inr { Some(s.r(i, j, d - 1)) } else { None };
                    let exp_v = if inr { Some(s.v_any(i, j, d - 1)) } else { None };
                    let exp_m = if inr { Some(s.m(i, j, d - 1)) } else { None };
                    let g = (t.r(i, j, d), t.v(i, j, d), t.m(i, j, d));
                    if g != (exp_r, exp_v, exp_m) {
                        return Some(("rvm", format!("{}: (r,v,m)({},{},{}) = {:?}, expected {:?}", name, i, j, d, g, (exp_r, exp_v, exp_m))));
                    }
                }
            }
        }
        None
    });
    ctx.ops(nops.get());
    match res {
        Ok(None) => {}
        Ok(Some((kind, detail))) => fail(ctx, kind, case, detail, w),
        Err(m) => {
            let (i, j, d, what) = cur.get();
            fail(ctx, "panic:rvm", case, format!("{}: {}({},{},{}) panicked: {}", name, what, i, j, d, m), w)
        }
    }
}

/// laws that are statements about the answers themselves (symmetry, constancy on orbits),
/// checked on the crate's answers without the reference tables
fn check_sym_laws<T: DSym>(ctx: &mut Ctx, name: &str, t: &T, s: &RS, case: &Value) {
    let (n, dim) = (s.n, s.dim());
    let w = n as u64;
    let r = ctx.guard(|| {
        let mut bad = vec![];
        for i in 0..=dim {
            for d in 1..=n {
                let e = t.op(i, d);
                if e.and_then(|e| t.op(i, e)) != Some(d) {
                    bad.push(format!("op({},·) is not an involution at {}", i, d));
                }
            }
            for j in 0..=dim {
                for d in 1..=n {
                    let q = (t.r(i, j, d), t.v(i, j, d), t.m(i, j, d));
                    if q != (t.r(j, i, d), t.v(j, i, d), t.m(j, i, d)) {
                        bad.push(format!("r/v/m not symmetric at ({},{},{})", i, j, d));
                    }
                    if let (Some(r), Some(v), Some(m)) = q {
                        if m != r * v {
                            bad.push(format!("m != r*v at ({},{},{})", i, j, d));
                        }
                    } else {
                        bad.push(format!("None inside the range at ({},{},{})", i, j, d));
                    }
                    for k in [i, j] {
                        let e = t.op(k, d).unwrap_or(d);
                        if q != (t.r(i, j, e), t.v(i, j, e), t.m(i, j, e)) {
                            bad.push(format!("r/v/m not constant on the ({},{})-orbit of {}", i, j, d));
                        }
                    }
                }
            }
        }
        bad
    });
    ctx.ops(((dim + 1) * (dim + 1) * n * 9) as u64);
    match r {
        Ok(bad) => {
            if let Some(b) = bad.first() {
                fail(ctx, "laws", case, format!("{}: {}", name, b), w);
            }
        }
        Err(m) => fail(ctx, "panic:laws", case, format!("{}: {}", name, m), w),
    }
}

fn reach(s: &RS, idcs: &[usize], seed: usize) -> BTreeSet<usize> {
    // 1-based in and out
    let dim = s.dim();
    let valid: Vec<usize> = idcs.iter().cloned().filter(|&i| i <= dim).collect();
    s.component(&valid, seed - 1).into_iter().map(|d| d + 1).collect()
}

/// predicates, orbits, representatives and traversals of one set representation
fn check_set_graph<T: DSet>(ctx: &mut Ctx, name: &str, t: &T, s: &RS, case: &Value, seqs: &[Vec<usize>]) {
    let (n, dim) = (s.n, s.dim());
    let w = n as u64;
    let exp = (s.is_connected(), true, s.is_loopless(), s.is_bipartite(), s.is_bipartite() && s.is_loopless());
    match ctx.guard(|| (t.is_connected(), t.is_complete(), t.is_loopless(), t.is_weakly_oriented(), t.is_oriented())) {
        Ok(got) => {
            if got != exp {
                fail(
                    ctx,
                    "predicates",
                    case,
                    format!("{}: (connected,complete,loopless,weakly_oriented,oriented) = {:?}, expected {:?}", name, got, exp),
                    w,
                );
            }
        }
        Err(m) => fail(ctx, "panic:predicates", case, format!("{}: {}", name, m), w),
    }
    ctx.ops(5);
    // full_orbit, walk and the 2-orbit representatives
    let extra = ctx.guard(|| {
        let mut bad: Option<String> = None;
        for seed in 1..=n {
            let e: Vec<usize> = reach(s, &(0..=dim).collect::<Vec<_>>(), seed).into_iter().collect();
            let mut fo = t.full_orbit(seed);
            fo.sort();
            if fo != e {
                bad = Some(format!("full_orbit({}) = {:?}, expected {:?}", seed, t.full_orbit(seed), e));
            }
            for i in 0..=dim {
                for j in 0..=dim {
                    let exp = s.ops[j][s.ops[i][seed - 1]] + 1;
                    if t.walk(seed, [i, j]) != Some(exp) {
                        bad = Some(format!("walk({}, [{},{}]) = {:?}, expected {}", seed, i, j, t.walk(seed, [i, j]), exp));
                    }
                }
            }
            if t.walk(seed, [dim + 1]).is_some() || t.walk(seed, []) != Some(seed) {
                bad = Some(format!("walk({}, ..) wrong on the empty / out-of-range path", seed));
            }
        }
        for i in 0..=dim {
            for j in 0..=dim {
                let reps = t.orbit_reps_2d(i, j);
                let comps = s.components(&[i, j]);
                let mut hit = vec![0usize; comps.len()];
                for &r in &reps {
                    match comps.iter().position(|c| r >= 1 && c.contains(&(r - 1))) {
                        Some(k) => hit[k] += 1,
                        None => bad = Some(format!("orbit_reps_2d({},{}) contains {}, which is not a chamber", i, j, r)),
                    }
                }
                if hit.iter().any(|&h| h != 1) {
                    bad = Some(format!("orbit_reps_2d({},{}) = {:?} is not one representative per ({},{})-orbit", i, j, reps, i, j));
                }
            }
        }
        bad
    });
    ctx.ops((n * (dim + 1) * (dim + 1) + (dim + 1) * (dim + 1)) as u64);
    match extra {
        Ok(None) => {}
        Ok(Some(b)) => fail(ctx, "orbit-queries", case, format!("{}: {}", name, b), w),
        Err(m) => fail(ctx, "panic:orbit-queries", case, format!("{}: {}", name, m), w),
    }
    for mask in 0u32..(1 << (dim + 1)) {
        let idcs: Vec<usize> = (0..=dim).filter(|&i| mask >> i & 1 == 1).collect();
        for seed in 1..=n {
            let e: Vec<usize> = reach(s, &idcs, seed).into_iter().collect();
            ctx.ops(1);
            match ctx.guard(|| t.orbit(idcs.clone(), seed)) {
                Ok(o) => {
                    // compared as a duplicate-free set: the statement does not fix an order
                    let mut os = o.clone();
                    os.sort();
                    if os != e || os.windows(2).any(|p| p[0] == p[1]) {
                        fail(ctx, "orbit", case, format!("{}: orbit({:?},{}) = {:?}, expected {:?}", name, idcs, seed, o, e), w);
                    }
                }
                Err(m) => fail(ctx, "panic:orbit", case, format!("{}: orbit({:?},{}): {}", name, idcs, seed, m), w),
            }
        }
        for sq in seqs {
            if sq.iter().any(|&x| x > n) {
                continue;
            }
            ctx.ops(2);
            let comps: BTreeSet<BTreeSet<usize>> = sq.iter().map(|&x| reach(s, &idcs, x)).collect();
            let expected: BTreeSet<usize> = comps.iter().flat_map(|c| c.iter().cloned()).collect();
            let got = ctx.guard(|| {
                let reps = t.orbit_reps(idcs.clone(), sq.clone());
                let tr: Vec<(Option<usize>, usize, usize)> = t.traversal(idcs.clone(), sq.clone()).collect();
                (reps, tr)
            });
            let (reps, tr) = match got {
                Ok(x) => x,
                Err(m) => {
                    fail(ctx, "panic:traversal", case, format!("{}: traversal({:?},{:?}): {}", name, idcs, sq, m), w);
                    continue;
                }
            };
            // exactly one representative per seeded component, representatives among the seeds
            let repcomps: Vec<BTreeSet<usize>> = reps.iter().map(|&x| if x >= 1 && x <= n { reach(s, &idcs, x) } else { BTreeSet::new() }).collect();
            let ok1 = reps.iter().all(|r| sq.contains(r))
                && repcomps.len() == comps.len()
                && repcomps.iter().cloned().collect::<BTreeSet<_>>() == comps;
            if !ok1 {
                fail(ctx, "orbit_reps", case, format!("{}: orbit_reps({:?},{:?}) = {:?}", name, idcs, sq, reps), w);
            }
            // traversal: one root per seeded component, every step is an op application,
            // exactly the reachable chambers, every i-edge of a traversed component once
            let roots: Vec<&(Option<usize>, usize, usize)> = tr.iter().filter(|t| t.0.is_none()).collect();
            let mut ok2 = roots.len() == comps.len() && roots.iter().all(|&&(_, d, e)| d == e);
            ok2 &= tr.iter().all(|&(i, d, e)| match i {
                None => true,
                Some(i) => idcs.contains(&i) && d >= 1 && d <= n && s.ops[i][d - 1] + 1 == e,
            });
            let rootcomps: BTreeSet<BTreeSet<usize>> = roots.iter().filter(|r| r.1 >= 1 && r.1 <= n).map(|r| reach(s, &idcs, r.1)).collect();
            ok2 &= rootcomps == comps;
            let reported: BTreeSet<usize> = tr.iter().flat_map(|&(_, d, e)| [d, e]).collect();
            ok2 &= reported == expected;
            let mut edges: Vec<(usize, usize, usize)> = tr.iter().filter_map(|&(i, d, e)| i.map(|i| (i, d.min(e), d.max(e)))).collect();
            edges.sort();
            let mut exp_edges: Vec<(usize, usize, usize)> = vec![];
            for &i in &idcs {
                for &d in &expected {
                    let e = s.ops[i][d - 1] + 1;
                    if d <= e {
                        exp_edges.push((i, d, e));
                    }
                }
            }
            exp_edges.sort();
            ok2 &= edges == exp_edges;
            if !ok2 {
                fail(ctx, "traversal", case, format!("{}: traversal({:?},{:?}) = {:?}", name, idcs, sq, tr), w);
            }
        }
    }
}

/// default-trait r on plain sets (walk), None outside the range, involution law
fn check_set_tables<T: DSet>(ctx: &mut Ctx, name: &str, t: &T, s: &RS, case: &Value) {
    let (n, dim) = (s.n, s.dim());
    let w = n as u64;
    if t.size() != n || t.dim() != dim {
        fail(ctx, "size-dim", case, format!("{}: size/dim {}/{} expected {}/{}", name, t.size(), t.dim(), n, dim), w);
        return;
    }
    let mut nops = 0;
    for i in 0..=dim + 1 {
        for d in 0..=n + 1 {
            nops += 1;
            let exp = if i <= dim && d >= 1 && d <= n { Some(s.ops[i][d - 1] + 1) } else { None };
            match ctx.guard(|| t.op(i, d)) {
                Ok(g) if g == exp => {}
                Ok(g) => fail(ctx, "op", case, format!("{}: op({},{}) = {:?}, expected {:?}", name, i, d, g, exp), w),
                Err(m) => fail(ctx, "panic:op", case, format!("{}: op({},{}) panicked: {}", name, i, d, m), w),
            }
            for j in 0..=dim + 1 {
                nops += 1;
                let inr = i <= dim && j <= dim && d >= 1 && d <= n;
                let exp_r = if inr { Some(s.r(i, j, d - 1)) } else { None };
                match ctx.guard(|| (t.r(i, j, d), t.m(i, j, d).is_some())) {
                    Ok((g, m_some)) => {
                        // m of a plain set has no meaning beyond "None outside the range"
                        if g != exp_r || (m_some && !inr) {
                            fail(ctx, "r", case, format!("{}: r({},{},{}) = {:?}, expected {:?}; m is_some = {}", name, i, j, d, g, exp_r, m_some), w);
                        }
                    }
                    Err(m) => fail(ctx, "panic:r", case, format!("{}: r({},{},{}) panicked: {}", name, i, j, d, m), w),
                }
            }
        }
    }
    ctx.ops(nops);
}

fn check_symbol_case(ctx: &mut Ctx, s: &RS) {
    let case = json!({"family": "sym", "sym": rs_to_json(s)});
    ctx.announce(&case);
    ctx.count(s.n >= 2 && s.is_connected());
    if ctx.want_sample() {
        ctx.sample(case.clone());
    }
    let w = s.n as u64;
    let built = ctx.guard(|| {
        let p = to_partial_dsym(s);
        let sd: SimpleDSym = p.clone().into();
        let ap = as_partial_dsym(&sd);
        let ap2 = as_partial_dsym(&p);
        (p, sd, ap, ap2)
    });
    let (p, sd, ap, ap2) = match built {
        Ok(x) => x,
        Err(m) => {
            fail(ctx, "panic:build", &case, m, w);
            return;
        }
    };
    check_sym_tables(ctx, "PartialDSym", &p, s, &case);
    check_sym_tables(ctx, "SimpleDSym", &sd, s, &case);
    check_sym_tables(ctx, "as_partial_dsym(SimpleDSym)", &ap, s, &case);
    check_sym_tables(ctx, "as_partial_dsym(PartialDSym)", &ap2, s, &case);
    check_sym_laws(ctx, "PartialDSym", &p, s, &case);
    check_sym_laws(ctx, "SimpleDSym", &sd, s, &case);
    // the set views of a symbol
    let views = ctx.guard(|| (as_dset(&p), as_dset(&sd), as_dsym(&as_dset(&sd))));
    match views {
        Ok((a, b, c)) => {
            let plain = RS::from_ops(s.ops.clone());
            check_set_tables(ctx, "as_dset(PartialDSym)", &a, &plain, &case);
            check_set_tables(ctx, "as_dset(SimpleDSym)", &b, &plain, &case);
            check_sym_tables(ctx, "as_dsym(as_dset(SimpleDSym))", &c, &plain, &case);
        }
        Err(m) => fail(ctx, "panic:views", &case, m, w),
    }
    // predicates / orbits / traversals also through the symbol representations
    // (these go through `op` only; the full index-subset x seed-sequence sweep is done on the
    // unbranched symbol of each set, the predicates and full traversal on every symbol)
    let seqs = if s.v.iter().all(|r| r.iter().all(|&x| x == 1)) { small_seqs(s.n) } else { vec![(1..=s.n).collect()] };
    check_set_graph(ctx, "PartialDSym", &p, s, &case, &seqs);
    check_set_graph(ctx, "SimpleDSym", &sd, s, &case, &seqs);
}

/// seed sequences used on symbols (all duplicate-free sequences up to size 3, fewer above)
fn small_seqs(n: usize) -> Vec<Vec<usize>> {
    if n <= 3 {
        dupfree_seqs(n)
    } else {
        let mut v = vec![vec![], (1..=n).collect::<Vec<_>>(), (1..=n).rev().collect::<Vec<_>>()];
        for a in 1..=n {
            v.push(vec![a]);
            for b in 1..=n {
                if a != b {
                    v.push(vec![a, b]);
                }
            }
        }
        v
    }
}

fn check_set_case(ctx: &mut Ctx, ops: &Vec<Vec<usize>>) {
    let s = RS::from_ops(ops.clone());
    let case = json!({"family": "set", "sym": rs_to_json(&s)});
    ctx.announce(&case);
    ctx.count(s.n >= 2 && s.is_connected());
    let w = s.n as u64;
    let built = ctx.guard(|| {
        let pd = to_partial_dset(&s);
        let sd: SimpleDSet = pd.clone().into();
        (pd, sd)
    });
    let (pd, sd) = match built {
        Ok(x) => x,
        Err(m) => {
            fail(ctx, "panic:build", &case, m, w);
            return;
        }
    };
    check_set_tables(ctx, "PartialDSet", &pd, &s, &case);
    check_set_tables(ctx, "SimpleDSet", &sd, &s, &case);
    let full = s.n <= 3 || (s.n == 4 && (s.dim() <= 2 || ctx.tier.is_thorough()));
    let seqs = if full { dupfree_seqs(s.n) } else { small_seqs(s.n) };
    check_set_graph(ctx, "PartialDSet", &pd, &s, &case, &seqs);
    check_set_graph(ctx, "SimpleDSet", &sd, &s, &case, &seqs);
}

/// partial sets: each op is a partial involution given as `Option` images
fn check_partial_case(ctx: &mut Ctx, n: usize, dim: usize, ops: &Vec<Vec<Option<usize>>>) {
    let case = json!({"family": "partial", "n": n, "dim": dim,
        "ops": ops.iter().map(|o| o.iter().map(|x| x.map(|y| y + 1).unwrap_or(0)).collect::<Vec<_>>()).collect::<Vec<_>>()});
    ctx.announce(&case);
    ctx.count(n >= 2);
    let w = n as u64;
    let built = ctx.guard(|| {
        let mut pd = PartialDSet::new(n, dim);
        for i in 0..=dim {
            for d in 0..n {
                if let Some(e) = ops[i][d] {
                    pd.set(i, d + 1, e + 1);
                }
            }
        }
        pd
    });
    let pd = match built {
        Ok(x) => x,
        Err(m) => {
            fail(ctx, "panic:build", &case, m, w);
            return;
        }
    };
    let complete = ops.iter().all(|o| o.iter().all(|x| x.is_some()));
    let r = ctx.guard(|| {
        let mut bad = vec![];
        if pd.is_complete() != complete {
            bad.push(format!("is_complete = {}", pd.is_complete()));
        }
        for i in 0..=dim + 1 {
            for d in 0..=n + 1 {
                let exp = if i <= dim && d >= 1 && d <= n { ops[i][d - 1].map(|e| e + 1) } else { None };
                if pd.op(i, d) != exp {
                    bad.push(format!("op({},{}) = {:?}, expected {:?}", i, d, pd.op(i, d), exp));
                }
                for j in 0..=dim + 1 {
                    // r where the whole walk is defined, None otherwise
                    let inr = i <= dim && j <= dim && d >= 1 && d <= n;
                    let exp_r = if !inr {
                        None
                    } else {
                        let mut e = d - 1;
                        let mut r = 0;
                        loop {
                            match ops[i][e].and_then(|x| ops[j][x]) {
                                None => break None,
                                Some(x) => {
                                    e = x;
                                    r += 1;
                                    if e == d - 1 {
                                        break Some(r);
                                    }
                                    if r > 2 * n + 2 {
                                        break None; // walk never returns; skip
                                    }
                                }
                            }
                        }
                    };
                    // a partial involution walk that never returns cannot happen (injective), so exp_r is exact
                    let got = pd.r(i, j, d);
                    if got != exp_r {
                        bad.push(format!("r({},{},{}) = {:?}, expected {:?}", i, j, d, got, exp_r));
                    }
                }
            }
        }
        // the graph routines on partial sets: an undefined operation is no edge
        let reach_p = |idx: &[usize], seed: usize| -> Vec<usize> {
            let mut seen = vec![false; n];
            let mut stack = vec![seed];
            seen[seed] = true;
            while let Some(d) = stack.pop() {
                for &i in idx {
                    if let Some(e) = ops[i][d] {
                        if !seen[e] {
                            seen[e] = true;
                            stack.push(e);
                        }
                    }
                }
            }
            (0..n).filter(|&d| seen[d]).map(|d| d + 1).collect()
        };
        let all_idx: Vec<usize> = (0..=dim).collect();
        let ncomp = {
            let mut seen = vec![false; n];
            let mut c = 0;
            for d in 0..n {
                if !seen[d] {
                    c += 1;
                    for e in reach_p(&all_idx, d) {
                        seen[e - 1] = true;
                    }
                }
            }
            c
        };
        let loopless = (0..=dim).all(|i| (0..n).all(|d| ops[i][d] != Some(d)));
        let bipartite = {
            // 2-colouring of the graph of defined non-loop edges
            let mut col = vec![0i8; n];
            let mut ok = true;
            for s0 in 0..n {
                if col[s0] != 0 {
                    continue;
                }
                col[s0] = 1;
                let mut stack = vec![s0];
                while let Some(d) = stack.pop() {
                    for i in 0..=dim {
                        if let Some(e) = ops[i][d] {
                            if e == d {
                                continue;
                            }
                            if col[e] == 0 {
                                col[e] = -col[d];
                                stack.push(e);
                            } else if col[e] == col[d] {
                                ok = false;
                            }
                        }
                    }
                }
            }
            ok
        };
        let got = (pd.is_connected(), pd.is_loopless(), pd.is_weakly_oriented(), pd.is_oriented());
        let exp = (ncomp <= 1, loopless, bipartite, bipartite && loopless);
        if got != exp {
            bad.push(format!("(connected,loopless,weakly_oriented,oriented) = {:?}, expected {:?}", got, exp));
        }
        for mask in 0..(1usize << (dim + 1)) {
            let idx: Vec<usize> = (0..=dim).filter(|i| mask >> i & 1 == 1).collect();
            for d in 1..=n {
                let mut o = pd.orbit(idx.clone(), d);
                o.sort();
                let e = reach_p(&idx, d - 1);
                if o != e {
                    bad.push(format!("orbit({:?}, {}) = {:?}, expected {:?}", idx, d, pd.orbit(idx.clone(), d), e));
                }
            }
            // one representative per component, the first seed met in each
            for seeds in [(1..=n).collect::<Vec<usize>>(), (1..=n).rev().collect::<Vec<usize>>()] {
                let reps = pd.orbit_reps(idx.clone(), seeds.clone());
                let mut exp_reps = vec![];
                let mut seen = vec![false; n + 1];
                for &sd in &seeds {
                    if !seen[sd] {
                        exp_reps.push(sd);
                        for e in reach_p(&idx, sd - 1) {
                            seen[e] = true;
                        }
                    }
                }
                if reps != exp_reps {
                    bad.push(format!("orbit_reps({:?}, {:?}) = {:?}, expected {:?}", idx, seeds, reps, exp_reps));
                }
                // every chamber of the traversed components is visited
                let mut visited: Vec<usize> = pd.traversal(idx.clone(), seeds.clone()).map(|(_, _, e)| e).collect();
                visited.sort();
                visited.dedup();
                if visited != (1..=n).collect::<Vec<_>>() {
                    bad.push(format!("traversal({:?}, {:?}) visits {:?}", idx, seeds, visited));
                }
            }
        }
        let fo: Vec<Vec<usize>> = (1..=n).map(|d| { let mut o = pd.full_orbit(d); o.sort(); o }).collect();
        for d in 1..=n {
            if fo[d - 1] != reach_p(&all_idx, d - 1) {
                bad.push(format!("full_orbit({}) = {:?}", d, fo[d - 1]));
            }
        }
        let _ = pd.full_traversal().count();
        let _ = format!("{}", pd);
        bad
    });
    ctx.ops(((dim + 2) * (dim + 2) * (n + 2) + 8) as u64);
    match r {
        Ok(bad) => {
            if let Some(b) = bad.first() {
                fail(ctx, "partial", &case, b.clone(), w);
            }
        }
        Err(m) => fail(ctx, "panic:partial", &case, m, w),
    }
}

fn partial_involutions(n: usize) -> Vec<Vec<Option<usize>>> {
    // all partial maps that are involutions on their domain
    fn rec(n: usize, p: &mut Vec<Option<Option<usize>>>, out: &mut Vec<Vec<Option<usize>>>) {
        if let Some(i) = (0..n).find(|&i| p[i].is_none()) {
            p[i] = Some(None);
            rec(n, p, out);
            p[i] = Some(Some(i));
            rec(n, p, out);
            p[i] = None;
            for j in (i + 1)..n {
                if p[j].is_none() {
                    p[i] = Some(Some(j));
                    p[j] = Some(Some(i));
                    rec(n, p, out);
                    p[i] = None;
                    p[j] = None;
                }
            }
        } else {
            out.push(p.iter().map(|x| x.unwrap()).collect());
        }
    }
    let mut out = vec![];
    rec(n, &mut vec![None; n], &mut out);
    out
}

fn check_generated_sym<T: DSym>(ctx: &mut Ctx, what: &str, text: String, t: &T) {
    let case = json!({"family": "gen", "what": what, "text": text});
    ctx.announce(&case);
    let s = match ctx.guard(|| from_dsym(t)) {
        Ok(Some(s)) => s,
        Ok(None) => {
            fail(ctx, "gen-incomplete", &case, "generated symbol is not complete".into(), t.size() as u64);
            return;
        }
        Err(m) => {
            fail(ctx, "panic:gen", &case, m, 0);
            return;
        }
    };
    ctx.count(s.n >= 2 && s.is_connected());
    if let Err(e) = valid_symbol(&s) {
        fail(ctx, "gen-invalid", &case, e, s.n as u64);
        return;
    }
    check_sym_tables(ctx, what, t, &s, &case);
    check_sym_laws(ctx, what, t, &s, &case);
    let seqs = small_seqs(s.n.min(4));
    check_set_graph(ctx, what, t, &s, &case, &seqs);
}

fn run(ctx: &mut Ctx) {
    let tier = ctx.tier;
    // family sym
    for dim in 1..=3usize {
        for n in 1..=tier.pick(3, 4) {
            let vals: &[usize] = if n <= 3 { &[1, 2, 3] } else { &[1, 2] };
            for_each_labeled_set(dim, n, true, &mut |ops| {
                for_each_branching(ops, vals, usize::MAX, &mut |s| {
                    if ctx.take() {
                        check_symbol_case(ctx, s);
                    }
                });
            });
        }
    }
    // family sym, huge degrees: one orbit at a time carries a value at a power-of-two boundary of the integer
    // widths (every representation must report the same v and m = r * v)
    let mut huge: Vec<usize> = vec![1];
    for b in [7u32, 8, 15, 16, 31, 32, 53, 59] {
        for x in [(1usize << b) - 1, 1usize << b, (1usize << b) + 1] {
            huge.push(x);
        }
    }
    for dim in 1..=3usize {
        for n in 1..=tier.pick(2, 3) {
            for_each_labeled_set(dim, n, true, &mut |ops| {
                for_each_branching(ops, &huge, 1, &mut |s| {
                    if s.v.iter().any(|r| r.iter().any(|&x| x > 1)) && ctx.take() {
                        check_symbol_case(ctx, s);
                        ctx.add("huge_degree_symbols", 1);
                    }
                });
            });
        }
    }
    // family set
    for dim in 1..=3usize {
        let maxn = if dim == 2 { tier.pick(4, 5) } else { 4 };
        for n in 1..=maxn {
            for_each_labeled_set(dim, n, false, &mut |ops| {
                if ctx.take() {
                    check_set_case(ctx, ops);
                }
            });
        }
    }
    // family partial
    for dim in 1..=3usize {
        let nmax = match dim { 1 => 4, 2 => ctx.tier.pick(3, 4), _ => 3 };
        for n in 1..=nmax {
            let pi = partial_involutions(n);
            let total = pi.len().pow(dim as u32 + 1);
            for code in 0..total {
                if ctx.take() {
                    let mut c = code;
                    let ops: Vec<Vec<Option<usize>>> = (0..=dim)
                        .map(|_| {
                            let o = pi[c % pi.len()].clone();
                            c /= pi.len();
                            o
                        })
                        .collect();
                    check_partial_case(ctx, n, dim, &ops);
                }
            }
        }
    }
    // family gen
    let maxsz = |dim: usize| match dim {
        1 => 6,
        2 => tier.pick(5, 6),
        _ => tier.pick(4, 5),
    };
    for dim in 1..=3usize {
        let sets: Vec<SimpleDSet> = match ctx.guard(|| DSets::new(dim, maxsz(dim)).collect::<Vec<_>>()) {
            Ok(v) => v,
            Err(m) => {
                ctx.violation("panic:DSets", json!({"family": "gen", "dim": dim}), m, 0);
                continue;
            }
        };
        for ds in sets {
            if !ctx.take() {
                continue;
            }
            let text = format!("{}", ds);
            // the set itself in the representation it comes in
            if let Some(s) = from_dset(&ds) {
                let case = json!({"family": "gen", "what": "DSets output", "text": text});
                ctx.announce(&case);
                ctx.count(s.n >= 2);
                check_set_tables(ctx, "SimpleDSet from DSets", &ds, &s, &case);
                let seqs = small_seqs(s.n.min(4));
                check_set_graph(ctx, "SimpleDSet from DSets", &ds, &s, &case, &seqs);
            }
            if dim == 2 {
                let syms: Vec<SimpleDSym> = match ctx.guard(|| DSyms::new(&ds, Geometries::All).collect::<Vec<_>>()) {
                    Ok(v) => v,
                    Err(m) => {
                        ctx.violation("panic:DSyms", json!({"family": "gen", "text": text}), m, 0);
                        continue;
                    }
                };
                for (k, sy) in syms.iter().enumerate() {
                    check_generated_sym(ctx, "SimpleDSym from DSyms", format!("{}", sy), sy);
                    if k == 0 && sy.size() <= 4 {
                        if let Ok(cs) = ctx.guard(|| covers(sy, 3)) {
                            for c in cs {
                                check_generated_sym(ctx, "PartialDSym from covers", format!("{}", c), &c);
                            }
                        }
                    }
                }
            }
        }
    }
}

fn replay(ctx: &mut Ctx, case: &Value) {
    match case["family"].as_str() {
        Some("sym") => {
            if let Some(s) = rs_from_json(&case["sym"]) {
                check_symbol_case(ctx, &s);
            }
        }
        Some("set") => {
            if let Some(s) = rs_from_json(&case["sym"]) {
                check_set_case(ctx, &s.ops);
            }
        }
        Some("partial") => {
            let n = case["n"].as_u64().unwrap_or(1) as usize;
            let dim = case["dim"].as_u64().unwrap_or(1) as usize;
            let ops: Vec<Vec<Option<usize>>> = case["ops"]
                .as_array()
                .map(|a| a.iter().map(|o| usize_list(o).into_iter().map(|x| if x == 0 { None } else { Some(x - 1) }).collect()).collect())
                .unwrap_or_default();
            check_partial_case(ctx, n, dim, &ops);
        }
        Some("gen") => {
            if let Some(t) = case["text"].as_str() {
                if let Ok(Ok(p)) = ctx.guard(|| t.parse::<PartialDSym>()) {
                    let sd: SimpleDSym = p.clone().into();
                    check_generated_sym(ctx, "PartialDSym (re-parsed)", t.to_string(), &p);
                    check_generated_sym(ctx, "SimpleDSym (re-parsed)", t.to_string(), &sd);
                }
            }
        }
        _ => {}
    }
}
