//! C06 — the D-set generator enumerates every isomorphism class exactly once.

use crate::engine::*;
use crate::enumerate::symbols::*;
use crate::refmodel::dsym::*;
use rust_dsymbols::dsets::DSet;
use rust_dsymbols::generators::dset_generators::DSets;
use serde_json::{json, Value};
use std::collections::BTreeSet;

pub fn spec() -> Spec {
    Spec {
        id: "C06",
        run,
        replay,
        nshards: |t| t.pick(16, 16),
        case_cap_s: |t| t.pick(300, 7200),
        rule: "one case per (dimension, max_size) configuration; the oracle enumerates ALL tuples of involutions with the commutation property on 1..n for every n <= max_size and reduces the connected ones to a class key (minimum BFS code over all start chambers; cross-checked against the all-permutations key for n <= 5); generator outputs must be valid, complete, connected, commuting, consecutively numbered, pairwise non-isomorphic and hit exactly the oracle's key set. Beyond the oracle: 'large' configurations (validity, pairwise non-isomorphism, agreement with the oracle on the small sizes, closure under local moves) and 'stream' configurations (dimensions 1-7, every output valid, commuting, connected, consecutively numbered and not isomorphic to an earlier one, by fingerprints of canonical codes). Non-trivial = max_size >= 2.",
        assumptions: &[],
        bounds: |t| json!({"dim1_max_size": t.pick(9, 10), "dim2_max_size": t.pick(7, 8), "dim3_max_size": t.pick(6, 7), "dim4_max_size": 5, "dim5_max_size": t.pick(4, 5), "large_max_size_by_dim_1_to_5": t.pick(json!([14, 11, 10, 9, 8]), json!([16, 12, 11, 10, 9])), "stream_max_size_by_dim_1_to_7": t.pick(json!([20, 15, 12, 11, 10, 9, 8]), json!([24, 17, 13, 12, 11, 10, 9]))}),
    }
}

/// class key of a connected set: minimum over start chambers of the BFS code
fn bfs_code(ops: &Vec<Vec<usize>>) -> Option<Vec<usize>> {
    let n = ops[0].len();
    let mut best: Option<Vec<usize>> = None;
    for s in 0..n {
        let mut num = vec![usize::MAX; n];
        let mut order = vec![s];
        num[s] = 0;
        let mut code = vec![];
        let mut k = 0;
        while k < order.len() {
            let d = order[k];
            for op in ops {
                let e = op[d];
                if num[e] == usize::MAX {
                    num[e] = order.len();
                    order.push(e);
                }
                code.push(num[e]);
            }
            k += 1;
        }
        if order.len() < n {
            return None;
        }
        if best.as_ref().map_or(true, |b| code < *b) {
            best = Some(code);
        }
    }
    best
}

fn oracle(dim: usize, n: usize) -> (BTreeSet<Vec<usize>>, u64) {
    let mut keys = BTreeSet::new();
    let mut tuples = 0u64;
    let mut allperm_keys: BTreeSet<RS> = BTreeSet::new();
    for_each_labeled_set(dim, n, true, &mut |ops| {
        tuples += 1;
        if let Some(c) = bfs_code(ops) {
            if n <= 5 && keys.insert(c.clone()) {
                // first labeling seen of a new BFS class: record its all-permutations key
                allperm_keys.insert(RS::from_ops(ops.clone()).iso_key_all_perms());
            } else {
                keys.insert(c);
            }
        }
    });
    if n <= 5 {
        assert_eq!(allperm_keys.len(), keys.len(), "reference models disagree on the number of classes (dim {}, n {})", dim, n);
    }
    (keys, tuples)
}

fn check_config(ctx: &mut Ctx, dim: usize, max_size: usize) {
    let case = json!({"dim": dim, "max_size": max_size});
    ctx.announce(&case);
    ctx.count(max_size >= 2);
    ctx.sample(case.clone());
    let w = (dim * 100 + max_size) as u64;
    let outs = match ctx.guard(|| DSets::new(dim, max_size).collect::<Vec<_>>()) {
        Ok(v) => v,
        Err(m) => {
            ctx.violation("panic:DSets", case, m, w);
            return;
        }
    };
    ctx.ops(outs.len() as u64);
    let mut got: Vec<BTreeSet<Vec<usize>>> = vec![BTreeSet::new(); max_size + 1];
    for (k, ds) in outs.iter().enumerate() {
        let text = format!("{}", ds);
        let n = ds.size();
        if ds.dim() != dim || n < 1 || n > max_size {
            ctx.violation("size-dim", case.clone(), format!("output {} has dim {} size {}", text, ds.dim(), n), w);
            continue;
        }
        if ds.set_count() != k + 1 {
            ctx.violation("numbering", case.clone(), format!("output number {} carries counter {}", k + 1, ds.set_count()), w);
        }
        let s = match from_dset(ds) {
            Some(s) => s,
            None => {
                ctx.violation("incomplete", case.clone(), format!("output {} is not complete", text), w);
                continue;
            }
        };
        if !s.is_involutive() {
            ctx.violation("invalid", case.clone(), format!("output {}: an operation is not an involution", text), w);
            continue;
        }
        if !s.commutes() {
            ctx.violation("not-commuting", case.clone(), format!("output {}: operations with distant indices do not commute", text), w);
        }
        match bfs_code(&s.ops) {
            None => ctx.violation("disconnected", case.clone(), format!("output {} is not connected", text), w),
            Some(c) => {
                if !got[n].insert(c) {
                    ctx.violation("duplicate", case.clone(), format!("output {} is isomorphic to an earlier output", text), w);
                }
            }
        }
    }
    for n in 1..=max_size {
        let (exp, tuples) = oracle(dim, n);
        ctx.add("oracle_tuples", tuples as i64);
        ctx.add("oracle_classes", exp.len() as i64);
        if got[n] != exp {
            let missing = exp.difference(&got[n]).count();
            let extra = got[n].difference(&exp).count();
            ctx.violation(
                "class-set",
                case.clone(),
                format!("size {}: generator yields {} classes, oracle {} ({} missing, {} not in the oracle)", n, got[n].len(), exp.len(), missing, extra),
                w,
            );
        }
    }
}

/// every connected valid D-set reachable from `ops` by one local move (join two i-fixed chambers, split an
/// i-edge, re-pair two i-edges, move an i-edge end to an i-fixed chamber, attach a new chamber by an i-edge);
/// candidates are validated here (involutive by construction, commuting, connected), so each one is a D-set
/// the statement says must be isomorphic to an output
fn neighbours(ops: &Vec<Vec<usize>>, max_size: usize, f: &mut dyn FnMut(usize, Vec<usize>)) {
    let n = ops[0].len();
    let dim = ops.len() - 1;
    let mut emit = |cand: Vec<Vec<usize>>| {
        let s = RS::from_ops(cand);
        if s.commutes() {
            if let Some(c) = bfs_code(&s.ops) {
                f(s.n, c);
            }
        }
    };
    for i in 0..=dim {
        let fixed: Vec<usize> = (0..n).filter(|&d| ops[i][d] == d).collect();
        let edges: Vec<(usize, usize)> = (0..n).filter(|&d| ops[i][d] > d).map(|d| (d, ops[i][d])).collect();
        for (x, &a) in fixed.iter().enumerate() {
            for &b in &fixed[x + 1..] {
                let mut c = ops.clone();
                c[i][a] = b;
                c[i][b] = a;
                emit(c);
            }
        }
        for &(a, b) in &edges {
            let mut c = ops.clone();
            c[i][a] = a;
            c[i][b] = b;
            emit(c);
            for &z in &fixed {
                for (p, q) in [(a, b), (b, a)] {
                    // p keeps the edge, now to z; q becomes fixed
                    let mut c = ops.clone();
                    c[i][p] = z;
                    c[i][z] = p;
                    c[i][q] = q;
                    emit(c);
                }
            }
        }
        for (x, &(a, b)) in edges.iter().enumerate() {
            for &(c0, e) in &edges[x + 1..] {
                for (p, q) in [(c0, e), (e, c0)] {
                    let mut c = ops.clone();
                    c[i][a] = p;
                    c[i][p] = a;
                    c[i][b] = q;
                    c[i][q] = b;
                    emit(c);
                }
            }
        }
        if n < max_size {
            for &a in &fixed {
                let mut c: Vec<Vec<usize>> = ops.iter().map(|o| o.iter().cloned().chain(std::iter::once(n)).collect()).collect();
                c[i][a] = n;
                c[i][n] = a;
                emit(c);
            }
        }
    }
}

const LARGE_CHUNKS: usize = 16;

/// Configurations beyond the reach of the brute-force oracle: the outputs must still be valid, commuting,
/// connected, consecutively numbered and pairwise non-isomorphic, agree with the oracle on the sizes it
/// reaches, and be CLOSED under local moves: every valid connected D-set one move away from an output is a
/// D-set of at most the given size, so the statement puts its class in the list.  (A necessary condition for
/// completeness; sufficient whenever the move graph on classes is connected, which the oracle-sized
/// configurations confirm: see the counter `closure_components_checked`.)
fn check_large(ctx: &mut Ctx, dim: usize, max_size: usize, chunk: usize, oracle_max: usize) {
    let case = json!({"dim": dim, "max_size": max_size, "large": true, "chunk": chunk});
    ctx.announce(&case);
    ctx.count(true);
    if chunk == 0 {
        ctx.sample(case.clone());
    }
    let w = (dim * 100 + max_size) as u64 + 1000;
    let outs = match ctx.guard(|| DSets::new(dim, max_size).collect::<Vec<_>>()) {
        Ok(v) => v,
        Err(m) => {
            if chunk == 0 {
                ctx.violation("panic:DSets", case, m, w);
            }
            return;
        }
    };
    let mut got: Vec<BTreeSet<Vec<usize>>> = vec![BTreeSet::new(); max_size + 1];
    let mut sets: Vec<Option<RS>> = vec![];
    for (k, ds) in outs.iter().enumerate() {
        let n = ds.size();
        let mut ok = None;
        if ds.dim() != dim || n < 1 || n > max_size {
            if chunk == 0 {
                ctx.violation("size-dim", case.clone(), format!("output {} has dim {} size {}", ds, ds.dim(), n), w);
            }
        } else {
            if chunk == 0 && ds.set_count() != k + 1 {
                ctx.violation("numbering", case.clone(), format!("output number {} carries counter {}", k + 1, ds.set_count()), w);
            }
            match from_dset(ds) {
                None => {
                    if chunk == 0 {
                        ctx.violation("incomplete", case.clone(), format!("output {} is not complete", ds), w);
                    }
                }
                Some(s) => {
                    if !s.is_involutive() {
                        if chunk == 0 {
                            ctx.violation("invalid", case.clone(), format!("output {}: an operation is not an involution", ds), w);
                        }
                    } else {
                        if chunk == 0 && !s.commutes() {
                            ctx.violation("not-commuting", case.clone(), format!("output {}: operations with distant indices do not commute", ds), w);
                        }
                        match bfs_code(&s.ops) {
                            None => {
                                if chunk == 0 {
                                    ctx.violation("disconnected", case.clone(), format!("output {} is not connected", ds), w);
                                }
                            }
                            Some(c) => {
                                if !got[n].insert(c) && chunk == 0 {
                                    ctx.violation("duplicate", case.clone(), format!("output {} is isomorphic to an earlier output", ds), w);
                                }
                                if s.commutes() {
                                    ok = Some(s);
                                }
                            }
                        }
                    }
                }
            }
        }
        sets.push(ok);
    }
    if chunk == 0 {
        ctx.ops(outs.len() as u64);
        ctx.add("large_outputs", outs.len() as i64);
        for n in 1..=oracle_max.min(max_size) {
            let (exp, tuples) = oracle(dim, n);
            ctx.add("oracle_tuples", tuples as i64);
            if got[n] != exp {
                ctx.violation("class-set", case.clone(), format!("size {}: generator yields {} classes, oracle {}", n, got[n].len(), exp.len()), w);
            }
        }
    }
    if ctx.nviolations() > 0 {
        return;
    }
    // closure under local moves, this chunk's share of the outputs
    let mut missing: Option<(String, usize)> = None;
    let mut tested = 0u64;
    for (k, s) in sets.iter().enumerate() {
        if k % LARGE_CHUNKS != chunk {
            continue;
        }
        if let Some(s) = s {
            neighbours(&s.ops, max_size, &mut |n, code| {
                tested += 1;
                if !got[n].contains(&code) && missing.is_none() {
                    missing = Some((format!("{}", outs[k]), n));
                }
            });
        }
    }
    ctx.ops(tested);
    ctx.add("closure_neighbours_tested", tested as i64);
    if let Some((from, n)) = missing {
        ctx.violation("closure", case.clone(), format!("a valid connected D-set of size {} one local move away from output {} is isomorphic to no output", n, from), w);
    }
}

/// Still larger configurations, streamed: every output is a complete, connected D-set of the requested dimension
/// and at most the requested size whose operations are involutions and commute when their indices differ by more
/// than one, carries its consecutive number, and is isomorphic to no earlier output (128-bit fingerprints of the
/// canonical BFS codes).  No completeness claim at these sizes (that is the oracle's and the closure test's part).
fn check_stream(ctx: &mut Ctx, dim: usize, max_size: usize) {
    use std::hash::{Hash, Hasher};
    let case = json!({"dim": dim, "max_size": max_size, "stream": true});
    ctx.announce(&case);
    ctx.count(true);
    let w = (dim * 100 + max_size) as u64 + 2000;
    let mut seen: std::collections::HashSet<(u64, u64)> = Default::default();
    let mut it = match ctx.guard(|| DSets::new(dim, max_size)) {
        Ok(g) => g,
        Err(m) => {
            ctx.violation("panic:DSets", case, m, w);
            return;
        }
    };
    let mut k = 0usize;
    loop {
        let ds = match ctx.guard(|| it.next()) {
            Ok(Some(d)) => d,
            Ok(None) => break,
            Err(m) => {
                ctx.violation("panic:DSets", case.clone(), m, w);
                return;
            }
        };
        k += 1;
        let n = ds.size();
        let bad: Option<(&str, String)> = if ds.dim() != dim || n < 1 || n > max_size {
            Some(("size-dim", format!("output {} has dim {} size {}", ds, ds.dim(), n)))
        } else if ds.set_count() != k {
            Some(("numbering", format!("output number {} carries counter {}", k, ds.set_count())))
        } else {
            match from_dset(&ds) {
                None => Some(("incomplete", format!("output {} is not complete", ds))),
                Some(s) => {
                    if !s.is_involutive() {
                        Some(("invalid", format!("output {}: an operation is not an involution", ds)))
                    } else if !s.commutes() {
                        Some(("not-commuting", format!("output {}: operations with distant indices do not commute", ds)))
                    } else {
                        match bfs_code(&s.ops) {
                            None => Some(("disconnected", format!("output {} is not connected", ds))),
                            Some(c) => {
                                let mut h1 = std::collections::hash_map::DefaultHasher::new();
                                c.hash(&mut h1);
                                let mut h2 = std::collections::hash_map::DefaultHasher::new();
                                (0x9e3779b97f4a7c15u64, &c, n).hash(&mut h2);
                                if !seen.insert((h1.finish(), h2.finish())) {
                                    Some(("duplicate", format!("output {} is isomorphic to an earlier output", ds)))
                                } else {
                                    None
                                }
                            }
                        }
                    }
                }
            }
        };
        if let Some((kind, msg)) = bad {
            ctx.violation(kind, case.clone(), msg, w);
            return;
        }
    }
    ctx.ops(k as u64);
    ctx.add("stream_outputs", k as i64);
}

fn stream_configs(tier: Tier) -> Vec<(usize, usize)> {
    if tier.is_thorough() {
        vec![(2, 17), (7, 9), (3, 13), (4, 12), (5, 11), (6, 10), (1, 24)]
    } else {
        vec![(2, 15), (7, 8), (4, 11), (5, 10), (3, 12), (6, 9), (1, 20)]
    }
}

fn run(ctx: &mut Ctx) {
    let tier = ctx.tier;
    // heavy configurations first so that they land on different workers
    let mut configs = vec![];
    for dim in 1..=5usize {
        let maxn = match dim {
            1 => tier.pick(9, 10),
            2 => tier.pick(7, 8),
            3 => tier.pick(6, 7),
            4 => tier.pick(5, 5),
            _ => tier.pick(4, 5),
        };
        for m in 1..=maxn {
            configs.push((dim, m));
        }
    }
    configs.sort_by_key(|&(d, m)| std::cmp::Reverse(m * (d + 1)));
    for (dim, m) in configs {
        if ctx.take() {
            check_config(ctx, dim, m);
        }
    }
    if ctx.nviolations() > 0 {
        return;
    }
    for (dim, m, oracle_max) in large_configs(tier) {
        for chunk in 0..LARGE_CHUNKS {
            if ctx.take() {
                check_large(ctx, dim, m, chunk, oracle_max);
            }
        }
    }
    if ctx.nviolations() > 0 {
        return;
    }
    for (dim, m) in stream_configs(tier) {
        if ctx.take() {
            check_stream(ctx, dim, m);
        }
    }
}

/// (dimension, max_size, largest size compared with the brute-force oracle)
fn large_configs(tier: Tier) -> Vec<(usize, usize, usize)> {
    let lim = std::env::var("VERIF_C06_LARGE").ok().and_then(|v| v.parse::<usize>().ok());
    let mut v = vec![];
    for (dim, q, t, om) in [(1usize, 14usize, 16usize, 8usize), (2, 11, 12, 6), (3, 10, 11, 5), (4, 9, 10, 4), (5, 8, 9, 4)] {
        v.push((dim, lim.unwrap_or(tier.pick(q, t)), om));
    }
    v
}

fn replay(ctx: &mut Ctx, case: &Value) {
    let dim = case["dim"].as_u64().unwrap_or(2) as usize;
    let m = case["max_size"].as_u64().unwrap_or(3) as usize;
    if case["stream"].as_bool() == Some(true) {
        check_stream(ctx, dim, m);
        return;
    }
    if case["large"].as_bool() == Some(true) {
        check_large(ctx, dim, m, case["chunk"].as_u64().unwrap_or(0) as usize, 4);
        return;
    }
    check_config(ctx, dim, m);
}
