//! C06 — the D-set generator enumerates every isomorphism class exactly once.

use crate::engine::*;
use crate::enumerate::symbols::*;
use crate::refmodel::dsym::*;
use rust_dsymbols::dsets::DSet;
use rust_dsymbols::generators::dset_generators::DSets;
use serde_json::{json, Value};
use std::collections::BTreeSet;

pub fn spec() -> Spec {
    Spec {
        id: "C06",
        run,
        replay,
        nshards: |t| t.pick(16, 16),
        case_cap_s: |t| t.pick(300, 7200),
        rule: "one case per (dimension, max_size) configuration; the oracle enumerates ALL tuples of involutions with the commutation property on 1..n for every n <= max_size and reduces the connected ones to a class key (minimum BFS code over all start chambers; cross-checked against the all-permutations key for n <= 5); generator outputs must be valid, complete, connected, commuting, consecutively numbered, pairwise non-isomorphic and hit exactly the oracle's key set. Non-trivial = max_size >= 2.",
        assumptions: &[],
        bounds: |t| json!({"dim1_max_size": t.pick(9, 10), "dim2_max_size": t.pick(7, 8), "dim3_max_size": t.pick(6, 7)}),
    }
}

/// class key of a connected set: minimum over start chambers of the BFS code
fn bfs_code(ops: &Vec<Vec<usize>>) -> Option<Vec<usize>> {
    let n = ops[0].len();
    let mut best: Option<Vec<usize>> = None;
    for s in 0..n {
        let mut num = vec![usize::MAX; n];
        let mut order = vec![s];
        num[s] = 0;
        let mut code = vec![];
        let mut k = 0;
        while k < order.len() {
            let d = order[k];
            for op in ops {
                let e = op[d];
                if num[e] == usize::MAX {
                    num[e] = order.len();
                    order.push(e);
                }
                code.push(num[e]);
            }
            k += 1;
        }
        if order.len() < n {
            return None;
        }
        if best.as_ref().map_or(true, |b| code < *b) {
            best = Some(code);
        }
    }
    best
}

fn oracle(dim: usize, n: usize) -> (BTreeSet<Vec<usize>>, u64) {
    let mut keys = BTreeSet::new();
    let mut tuples = 0u64;
    let mut allperm_keys: BTreeSet<RS> = BTreeSet::new();
    for_each_labeled_set(dim, n, true, &mut |ops| {
        tuples += 1;
        if let Some(c) = bfs_code(ops) {
            if n <= 5 && keys.insert(c.clone()) {
                // first labeling seen of a new BFS class: record its all-permutations key
                allperm_keys.insert(RS::from_ops(ops.clone()).iso_key_all_perms());
            } else {
                keys.insert(c);
            }
        }
    });
    if n <= 5 {
        assert_eq!(allperm_keys.len(), keys.len(), "reference models disagree on the number of classes (dim {}, n {})", dim, n);
    }
    (keys, tuples)
}

fn check_config(ctx: &mut Ctx, dim: usize, max_size: usize) {
    let case = json!({"dim": dim, "max_size": max_size});
    ctx.announce(&case);
    ctx.count(max_size >= 2);
    ctx.sample(case.clone());
    let w = (dim * 100 + max_size) as u64;
    let outs = match ctx.guard(|| DSets::new(dim, max_size).collect::<Vec<_>>()) {
        Ok(v) => v,
        Err(m) => {
            ctx.violation("panic:DSets", case, m, w);
            return;
        }
    };
    ctx.ops(outs.len() as u64);
    let mut got: Vec<BTreeSet<Vec<usize>>> = vec![BTreeSet::new(); max_size + 1];
    for (k, ds) in outs.iter().enumerate() {
        let text = format!("{}", ds);
        let n = ds.size();
        if ds.dim() != dim || n < 1 || n > max_size {
            ctx.violation("size-dim", case.clone(), format!("output {} has dim {} size {}", text, ds.dim(), n), w);
            continue;
        }
        if ds.set_count() != k + 1 {
            ctx.violation("numbering", case.clone(), format!("output number {} carries counter {}", k + 1, ds.set_count()), w);
        }
        let s = match from_dset(ds) {
            Some(s) => s,
            None => {
                ctx.violation("incomplete", case.clone(), format!("output {} is not complete", text), w);
                continue;
            }
        };
        if !s.is_involutive() {
            ctx.violation("invalid", case.clone(), format!("output {}: an operation is not an involution", text), w);
            continue;
        }
        if !s.commutes() {
            ctx.violation("not-commuting", case.clone(), format!("output {}: operations with distant indices do not commute", text), w);
        }
        match bfs_code(&s.ops) {
            None => ctx.violation("disconnected", case.clone(), format!("output {} is not connected", text), w),
            Some(c) => {
                if !got[n].insert(c) {
                    ctx.violation("duplicate", case.clone(), format!("output {} is isomorphic to an earlier output", text), w);
                }
            }
        }
    }
    for n in 1..=max_size {
        let (exp, tuples) = oracle(dim, n);
        ctx.add("oracle_tuples", tuples as i64);
        ctx.add("oracle_classes", exp.len() as i64);
        if got[n] != exp {
            let missing = exp.difference(&got[n]).count();
            let extra = got[n].difference(&exp).count();
            ctx.violation(
                "class-set",
                case.clone(),
                format!("size {}: generator yields {} classes, oracle {} ({} missing, {} not in the oracle)", n, got[n].len(), exp.len(), missing, extra),
                w,
            );
        }
    }
}

fn run(ctx: &mut Ctx) {
    let tier = ctx.tier;
    // heavy configurations first so that they land on different workers
    let mut configs = vec![];
    for dim in 1..=3usize {
        let maxn = match dim {
            1 => tier.pick(9, 10),
            2 => tier.pick(7, 8),
            _ => tier.pick(6, 7),
        };
        for m in 1..=maxn {
            configs.push((dim, m));
        }
    }
    configs.sort_by_key(|&(d, m)| std::cmp::Reverse(m * (d + 1)));
    for (dim, m) in configs {
        if ctx.take() {
            check_config(ctx, dim, m);
        }
    }
}

fn replay(ctx: &mut Ctx, case: &Value) {
    let dim = case["dim"].as_u64().unwrap_or(2) as usize;
    let m = case["max_size"].as_u64().unwrap_or(3) as usize;
    check_config(ctx, dim, m);
}
