//! C14 — abelian invariants are the invariant factors of the relation lattice.

use crate::engine::*;
use crate::refmodel::groups::*;
use rust_dsymbols::fpgroups::free_words::FreeWord;
use rust_dsymbols::fpgroups::invariants::{abelian_invariants, relator_as_vector};
use rust_dsymbols::fundamental_group::fundamental_group;
use rust_dsymbols::generators::dset_generators::DSets;
use rust_dsymbols::generators::dsym_generators::{DSyms, Geometries};
use serde_json::{json, Value};
use std::collections::{HashSet, VecDeque};

pub fn spec() -> Spec {
    Spec {
        id: "C14",
        run,
        replay,
        nshards: |_| 16,
        case_cap_s: |t| t.pick(300, 3600),
        rule: "family 'exhaustive': every k x n exponent matrix with entries in [-e, e] for the listed (n, k, e), turned into relators g1^a1 g2^a2 ..., plus 9 metamorphic variants of each (relators reversed / inverted / rotated / conjugated, generators swapped / inverted, product of two relators appended, letters interleaved differently, duplicate relator); family 'walk' (explicit-state BFS): from diagonal seeds, every matrix reachable by <= d elementary unimodular row/column operations (add c*other for c in +-1,+-2; swap; negate), deduplicated, the answer must stay the seed's; family 'dsym': crate presentations of fundamental groups of all DSyms outputs over DSets(2, <= N). Oracle: invariant factors from determinantal divisors (gcd of all k x k minors), for shapes > 4 by i128 elimination with overflow detection; result ascending, no 1s, one 0 per free generator. Non-trivial = rank >= 1 and some invariant factor other than 1, or a free part together with torsion.",
        assumptions: &[],
        bounds: |t| json!({"exhaustive_nke": if t.is_thorough() { json!([[2,2,9],[3,2,3],[2,3,3],[3,3,2],[4,2,1],[2,4,1],[4,3,1],[3,4,1],[1,3,4],[3,1,4]]) } else { json!([[2,2,6],[3,2,2],[2,3,2],[3,3,2],[4,2,1],[2,4,1],[1,3,4],[3,1,4]]) },
            "walk_depth_small_shapes": t.pick(4, 5), "walk_depth_3x3": 3, "walk_depth_large_shapes": t.pick(2, 2), "walk_coefficients": [1, -1, 2, -2], "dense_family": "all circulants of 5-6 [7] generators over [-2, 2]; 343 arithmetic patterns with entries up to 9 in size for each of 6-8 [10] generators", "moderate_entries_family": "2 x 2 over 8 [14] values up to 1001 in size, and 2 x 3 / 3 x 3 / 2 x 4 patterns over 6 values up to 210", "dsym_dsets_max_size": t.pick(6, 8)}),
    }
}

fn word_from_row(row: &[i64]) -> Word {
    let mut w = vec![];
    for (g, &a) in row.iter().enumerate() {
        for _ in 0..a.abs() {
            w.push(if a > 0 { g as isize + 1 } else { -(g as isize + 1) });
        }
    }
    w
}

fn fw(w: &[isize]) -> FreeWord {
    FreeWord::from(w.to_vec())
}

fn crate_invariants(ctx: &mut Ctx, ngens: usize, rels: &[Word]) -> Result<Vec<usize>, String> {
    let rels_fw: Vec<FreeWord> = rels.iter().map(|r| fw(r)).collect();
    ctx.ops(1);
    ctx.guard(|| abelian_invariants(ngens, &rels_fw))
}

fn well_formed(inv: &[usize], ngens: usize) -> Option<String> {
    let nzv: Vec<usize> = inv.iter().cloned().filter(|&x| x != 0).collect();
    if nzv.windows(2).any(|p| p[0] > p[1]) {
        return Some("not ascending".into());
    }
    if inv.contains(&1) {
        return Some("contains a factor 1".into());
    }
    if inv.len() > ngens {
        return Some("more factors than generators".into());
    }
    // divisibility chain among the non-zero factors
    let nz: Vec<usize> = inv.iter().cloned().filter(|&x| x != 0).collect();
    if nz.windows(2).any(|p| p[1] % p[0] != 0) {
        return Some("non-zero factors do not form a divisibility chain".into());
    }
    None
}

fn check_presentation(ctx: &mut Ctx, case: &Value, ngens: usize, rels: &[Word], expected: &[i128], weight: u64) -> bool {
    match crate_invariants(ctx, ngens, rels) {
        Ok(got) => {
            let g: Vec<i128> = got.iter().map(|&x| x as i128).collect();
            // accepted orders: numerically ascending (zeros first, what the crate does) or finite factors
            // ascending followed by the zeros; the statement says "ascending" without placing the zeros
            let mut zeros_last: Vec<i128> = expected.iter().cloned().filter(|&x| x != 0).collect();
            zeros_last.extend(expected.iter().cloned().filter(|&x| x == 0));
            if g != expected && g != zeros_last {
                ctx.violation("wrong-invariants", case.clone(), format!("abelian_invariants({}, {:?}) = {:?}, expected {:?}", ngens, rels, got, expected), weight);
                return false;
            }
            if let Some(why) = well_formed(&got, ngens) {
                ctx.violation("malformed", case.clone(), format!("{:?}: {}", got, why), weight);
                return false;
            }
            true
        }
        Err(m) => {
            ctx.violation("panic:abelian_invariants", case.clone(), format!("on {:?}: {}", rels, m), weight);
            false
        }
    }
}

fn variants(ngens: usize, rels: &[Word]) -> Vec<(&'static str, usize, Vec<Word>)> {
    let mut out: Vec<(&'static str, usize, Vec<Word>)> = vec![];
    let mut r = rels.to_vec();
    r.reverse();
    out.push(("relators reversed", ngens, r));
    out.push(("relators inverted", ngens, rels.iter().map(|w| inv_word(w)).collect()));
    out.push((
        "relators rotated",
        ngens,
        rels.iter()
            .map(|w| {
                if w.is_empty() {
                    w.clone()
                } else {
                    let k = 1 % w.len();
                    [&w[k..], &w[..k]].concat()
                }
            })
            .collect(),
    ));
    out.push(("relators conjugated by generator 1", ngens, rels.iter().map(|w| [&[1isize][..], &w[..], &[-1isize][..]].concat()).collect()));
    if ngens >= 2 {
        let sw = |x: isize| -> isize {
            let s = x.signum();
            match x.abs() {
                1 => 2 * s,
                2 => s,
                a => a * s,
            }
        };
        out.push(("generators 1 and 2 swapped", ngens, rels.iter().map(|w| w.iter().map(|&x| sw(x)).collect()).collect()));
    }
    out.push(("generator 1 inverted", ngens, rels.iter().map(|w| w.iter().map(|&x| if x.abs() == 1 { -x } else { x }).collect()).collect()));
    if rels.len() >= 2 {
        let mut r = rels.to_vec();
        r.push([&rels[0][..], &rels[1][..]].concat());
        out.push(("product of two relators appended", ngens, r));
    }
    if !rels.is_empty() {
        let mut r = rels.to_vec();
        r.push(rels[0].clone());
        out.push(("duplicate relator", ngens, r));
    }
    // same exponent sums, letters in reverse order (not the inverse)
    out.push(("letters reversed inside relators", ngens, rels.iter().map(|w| w.iter().rev().cloned().collect()).collect()));
    out
}

fn check_matrix(ctx: &mut Ctx, ngens: usize, rows: &Vec<Vec<i64>>, with_variants: bool) {
    let case = json!({"family": "exhaustive", "ngens": ngens, "rows": rows});
    ctx.announce(&case);
    let expected = abelian_invariants_ref(ngens, rows);
    let nontrivial = expected.iter().any(|&x| x > 1);
    ctx.count(nontrivial);
    if ctx.want_sample() && nontrivial && expected.len() >= 2 {
        ctx.sample(json!({"case": case, "expected": expected.iter().map(|x| x.to_string()).collect::<Vec<_>>()}));
    }
    let weight = rows.iter().map(|r| r.iter().map(|x| x.unsigned_abs()).sum::<u64>()).sum::<u64>() + (10 * rows.len() * ngens) as u64;
    let rels: Vec<Word> = rows.iter().map(|r| word_from_row(r)).collect();
    // relator_as_vector is the exponent-sum vector
    for (w, row) in rels.iter().zip(rows.iter()) {
        ctx.ops(1);
        match ctx.guard(|| relator_as_vector::<i64>(ngens, &fw(w))) {
            Ok(v) => {
                if &v != row {
                    ctx.violation("relator_as_vector", case.clone(), format!("relator_as_vector({:?}) = {:?}, expected {:?}", w, v, row), weight);
                    return;
                }
            }
            Err(m) => {
                ctx.violation("panic:relator_as_vector", case.clone(), m, weight);
                return;
            }
        }
    }
    if !check_presentation(ctx, &case, ngens, &rels, &expected, weight) {
        return;
    }
    if with_variants {
        for (name, n, v) in variants(ngens, &rels) {
            let vcase = json!({"family": "exhaustive", "ngens": ngens, "rows": rows, "variant": name});
            if !check_presentation(ctx, &vcase, n, &v, &expected, weight + 1) {
                return;
            }
        }
    }
}

fn for_each_matrix(nrows: usize, ncols: usize, e: i64, f: &mut dyn FnMut(&Vec<Vec<i64>>)) {
    let cells = nrows * ncols;
    let base = (2 * e + 1) as u64;
    let total = base.pow(cells as u32);
    for code in 0..total {
        let mut c = code;
        let mut m = vec![vec![0i64; ncols]; nrows];
        for r in 0..nrows {
            for k in 0..ncols {
                m[r][k] = (c % base) as i64 - e;
                c /= base;
            }
        }
        f(&m);
    }
}

// --- unimodular walk -------------------------------------------------------------------

fn elementary_ops(nrows: usize, ncols: usize) -> Vec<(u8, usize, usize, i64)> {
    // (kind, i, j, c): 0 = row_i += c*row_j, 1 = col_i += c*col_j, 2 = swap rows, 3 = swap cols, 4 = negate row i, 5 = negate col i
    let mut ops = vec![];
    for i in 0..nrows {
        for j in 0..nrows {
            if i != j {
                for c in [1, -1, 2, -2] {
                    ops.push((0, i, j, c));
                }
                if i < j {
                    ops.push((2, i, j, 0));
                }
            }
        }
        ops.push((4, i, 0, 0));
    }
    for i in 0..ncols {
        for j in 0..ncols {
            if i != j {
                for c in [1, -1, 2, -2] {
                    ops.push((1, i, j, c));
                }
                if i < j {
                    ops.push((3, i, j, 0));
                }
            }
        }
        ops.push((5, i, 0, 0));
    }
    ops
}

fn apply_op(m: &Vec<Vec<i64>>, op: (u8, usize, usize, i64)) -> Vec<Vec<i64>> {
    let mut a = m.clone();
    let (kind, i, j, c) = op;
    match kind {
        0 => {
            for k in 0..a[0].len() {
                a[i][k] += c * m[j][k];
            }
        }
        1 => {
            for r in 0..a.len() {
                a[r][i] += c * m[r][j];
            }
        }
        2 => a.swap(i, j),
        3 => {
            for r in 0..a.len() {
                a[r].swap(i, j);
            }
        }
        4 => {
            for k in 0..a[0].len() {
                a[i][k] = -a[i][k];
            }
        }
        _ => {
            for r in 0..a.len() {
                a[r][i] = -a[r][i];
            }
        }
    }
    a
}

fn walk(ctx: &mut Ctx, nrows: usize, ncols: usize, diag: &[i64], depth: usize) {
    let case = json!({"family": "walk", "nrows": nrows, "ncols": ncols, "diag": diag, "depth": depth});
    ctx.announce(&case);
    let mut seed = vec![vec![0i64; ncols]; nrows];
    for (k, &d) in diag.iter().enumerate() {
        seed[k][k] = d;
    }
    let expected = abelian_invariants_ref(ncols, &seed);
    let ops = elementary_ops(nrows, ncols);
    let mut seen: HashSet<Vec<Vec<i64>>> = HashSet::new();
    seen.insert(seed.clone());
    let mut frontier = VecDeque::from([(seed, 0usize)]);
    let weight = (nrows * ncols) as u64;
    while let Some((m, d)) = frontier.pop_front() {
        ctx.evaluations += 1;
        ctx.states += 1;
        if expected.iter().any(|&x| x > 1) && d > 0 {
            ctx.nontrivial += 1;
        }
        let rels: Vec<Word> = m.iter().map(|r| word_from_row(r)).collect();
        let mcase = json!({"family": "exhaustive", "ngens": ncols, "rows": m, "reached_from_diag": diag});
        if !check_presentation(ctx, &mcase, ncols, &rels, &expected, weight + d as u64) {
            return;
        }
        if d < depth {
            for &op in &ops {
                ctx.transitions += 1;
                let a = apply_op(&m, op);
                if a.iter().all(|r| r.iter().all(|x| x.abs() <= 60)) && seen.insert(a.clone()) {
                    frontier.push_back((a, d + 1));
                }
            }
        }
    }
    ctx.max("walk_states_per_seed", seen.len() as i64);
}

fn diag_seeds(len: usize) -> Vec<Vec<i64>> {
    let vals = [0i64, 1, 2, 3, 4, 6];
    if len <= 2 {
        let mut out = vec![];
        let total = vals.len().pow(len as u32);
        for code in 0..total {
            let mut c = code;
            let mut d = vec![];
            for _ in 0..len {
                d.push(vals[c % vals.len()]);
                c /= vals.len();
            }
            out.push(d);
        }
        out
    } else {
        let fixed: Vec<Vec<i64>> = vec![
            vec![1, 2, 4, 0, 3],
            vec![2, 3, 6, 6, 4],
            vec![2, 2, 2, 2, 2],
            vec![0, 0, 0, 0, 0],
            vec![6, 4, 3, 2, 1],
            vec![1, 1, 1, 1, 1],
            vec![4, 6, 0, 2, 3],
            vec![3, 3, 4, 4, 6],
        ];
        fixed.into_iter().map(|d| d[..len].to_vec()).collect()
    }
}

fn run(ctx: &mut Ctx) {
    let tier = ctx.tier;
    let mut nke: Vec<(usize, usize, i64)> = vec![(2, 2, 3), (3, 2, 2), (2, 3, 2), (3, 3, 1), (1, 3, 4), (3, 1, 4)];
    nke.extend([(3, 3, 2), (4, 2, 1), (2, 4, 1), (2, 2, 6)]);
    if tier.is_thorough() {
        nke.extend([(2, 2, 9), (3, 2, 3), (2, 3, 3), (4, 3, 1), (3, 4, 1)]);
    }
    for (n, k, e) in nke {
        let with_variants = !(n == 3 && k == 3 && e == 2);
        for_each_matrix(k, n, e, &mut |m| {
            if ctx.take() {
                check_matrix(ctx, n, m, with_variants);
            }
        });
    }
    // moderate entries (relators up to a few thousand letters): products of small primes, near-multiples and
    // sign mixes, where gcd steps take several rounds and intermediate values grow
    {
        let vals: Vec<i64> = if tier.is_thorough() { vec![0, 1, -1, 2, -3, 6, 10, -15, 35, 77, -210, 1001, 1000, -999] } else { vec![0, 1, -2, 6, -15, 77, -210, 1001] };
        for a in &vals {
            for b in &vals {
                for c in &vals {
                    for d in &vals {
                        if ctx.take() {
                            check_matrix(ctx, 2, &vec![vec![*a, *b], vec![*c, *d]], false);
                        }
                    }
                }
            }
        }
        // three generators, two and three relators built from the same values (a spread, not the full cube)
        let v3: Vec<i64> = vec![0, 2, -3, 6, 35, -210];
        for a in &v3 {
            for b in &v3 {
                for c in &v3 {
                    if ctx.take() {
                        check_matrix(ctx, 3, &vec![vec![*a, *b, *c], vec![*c, *a, -*b]], false);
                        check_matrix(ctx, 3, &vec![vec![*a, *b, *c], vec![*b, *c, *a], vec![*c, -*a, *b]], false);
                        check_matrix(ctx, 4, &vec![vec![*a, *b, *c, 1], vec![*b, *c, 2, *a]], false);
                    }
                }
            }
        }
    }
    // dense matrices of 5-8 generators: all circulants over a small alphabet and a family of arithmetic patterns
    // with entries up to 9 in size (elimination with Bezout coefficients lets intermediate values explode on
    // dense matrices although every invariant factor stays small)
    {
        fn dense_case(ctx: &mut Ctx, rows: Vec<Vec<i64>>) {
            let n = rows[0].len();
            let case = json!({"family": "dense", "ngens": n, "rows": rows});
            ctx.announce(&case);
            let f = match invariant_factors_elim(&rows, n) {
                Some(f) => f,
                None => {
                    ctx.add("dense_reference_overflow", 1);
                    return;
                }
            };
            let mut expected: Vec<i128> = f.iter().cloned().filter(|&x| x != 1).collect();
            for _ in f.len()..n {
                expected.push(0);
            }
            expected.sort();
            ctx.count(expected.iter().any(|&x| x > 1));
            let rels: Vec<Word> = rows.iter().map(|r| word_from_row(r)).collect();
            let weight = 5000 + rows.iter().map(|r| r.iter().map(|x| x.unsigned_abs()).sum::<u64>()).sum::<u64>();
            check_presentation(ctx, &case, n, &rels, &expected, weight);
        }
        // the 6 x 6 matrix on which the overflow was first seen, and its row rotations
        let seen: Vec<Vec<i64>> = vec![vec![-6, 4, 4, 2, -2, 5], vec![8, 3, 1, 9, -4, -8], vec![-8, 2, 5, -4, 5, 9], vec![2, 2, -5, 5, -3, 8], vec![6, 8, 0, -3, -5, -2], vec![0, -6, -7, -2, 4, 7]];
        for k in 0..6 {
            if ctx.take() {
                let mut m = seen.clone();
                m.rotate_left(k);
                dense_case(ctx, m);
            }
        }
        for n in 5..=tier.pick(6usize, 7usize) {
            let alphabet: Vec<i64> = vec![-2, -1, 0, 1, 2];
            let total = alphabet.len().pow(n as u32);
            for code in 0..total {
                if !ctx.take() {
                    continue;
                }
                let mut c = code;
                let first: Vec<i64> = (0..n).map(|_| { let x = alphabet[c % alphabet.len()]; c /= alphabet.len(); x }).collect();
                let rows: Vec<Vec<i64>> = (0..n).map(|i| (0..n).map(|j| first[(j + n - i) % n]).collect()).collect();
                dense_case(ctx, rows);
            }
        }
        for n in 6..=tier.pick(8usize, 10usize) {
            for a in 0..7i64 {
                for b in 0..7i64 {
                    for c in 0..7i64 {
                        if ctx.take() {
                            let rows: Vec<Vec<i64>> = (0..n as i64).map(|i| (0..n as i64).map(|j| (a * i * j + b * i * i + c * j + i + 2 * j * j) % 19 - 9).collect()).collect();
                            dense_case(ctx, rows);
                        }
                    }
                }
            }
        }
    }
    // zero relators and zero generators
    if ctx.take() {
        for n in 0..=4usize {
            let case = json!({"family": "exhaustive", "ngens": n, "rows": []});
            ctx.count(false);
            let expected = vec![0i128; n];
            check_presentation(ctx, &case, n, &[], &expected, n as u64);
        }
    }
    // walks
    let shapes_small = [(2usize, 2usize), (2, 3), (3, 2), (3, 3)];
    let shapes_large = [(4usize, 4usize), (3, 5), (5, 3), (5, 5), (4, 5)];
    for &(r, c) in &shapes_small {
        for d in diag_seeds(r.min(c)) {
            if ctx.take() {
                walk(ctx, r, c, &d, tier.pick(4, 5).min(if r * c >= 9 { tier.pick(3, 3) } else { 9 }));
            }
        }
    }
    for &(r, c) in &shapes_large {
        for d in diag_seeds(r.min(c)) {
            if ctx.take() {
                walk(ctx, r, c, &d, if r * c >= 20 { tier.pick(1, 2) } else { tier.pick(2, 2) });
            }
        }
    }
    // fundamental groups of D-symbols
    let sets: Vec<_> = ctx.supply("DSets::new", || DSets::new(2, tier.pick(6, 8)).collect::<Vec<_>>());
    for ds in sets {
        if !ctx.take() {
            continue;
        }
        let syms = ctx.supply("DSyms::new", || DSyms::new(&ds, Geometries::All).collect::<Vec<_>>());
        for sy in syms {
            if let Some(fg) = ctx.supply("fundamental_group", || Some(fundamental_group(&sy))) {
                let ng = fg.nr_generators();
                let rels: Vec<Word> = fg.relators.iter().map(|w| w.iter().cloned().collect::<Word>()).collect();
                let case = json!({"family": "dsym", "symbol": format!("{}", sy), "ngens": ng, "rels": rels});
                ctx.announce(&case);
                let expected = abelian_invariants_of_presentation(ng, &rels);
                ctx.count(expected.iter().any(|&x| x > 1));
                check_presentation(ctx, &case, ng, &rels, &expected, (ng * 10 + rels.len()) as u64);
            }
        }
    }
}

fn replay(ctx: &mut Ctx, case: &Value) {
    match case["family"].as_str() {
        Some("exhaustive") => {
            let n = case["ngens"].as_u64().unwrap_or(2) as usize;
            let rows: Vec<Vec<i64>> = case["rows"].as_array().map(|a| a.iter().map(|r| r.as_array().map(|x| x.iter().map(|v| v.as_i64().unwrap_or(0)).collect()).unwrap_or_default()).collect()).unwrap_or_default();
            check_matrix(ctx, n, &rows, true);
        }
        Some("walk") => {
            let d: Vec<i64> = case["diag"].as_array().map(|a| a.iter().map(|v| v.as_i64().unwrap_or(0)).collect()).unwrap_or_default();
            walk(ctx, case["nrows"].as_u64().unwrap_or(2) as usize, case["ncols"].as_u64().unwrap_or(2) as usize, &d, case["depth"].as_u64().unwrap_or(2) as usize);
        }
        Some("dsym") => {
            let n = case["ngens"].as_u64().unwrap_or(2) as usize;
            let rels: Vec<Word> = case["rels"].as_array().map(|a| a.iter().map(|w| crate::util::isize_list(w)).collect()).unwrap_or_default();
            let expected = abelian_invariants_of_presentation(n, &rels);
            ctx.count(true);
            check_presentation(ctx, case, n, &rels, &expected, 0);
        }
        _ => {}
    }
}
