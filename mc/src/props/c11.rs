//! C11 — coset enumeration returns the true coset table of the subgroup.

use crate::engine::*;
use crate::refmodel::groups::*;
use rust_dsymbols::dsets::DSet;
use rust_dsymbols::fpgroups::cosets::{coset_representative, coset_table, CosetTable};
use rust_dsymbols::fpgroups::free_words::FreeWord;
use rust_dsymbols::fundamental_group::fundamental_group;
use rust_dsymbols::generators::dset_generators::DSets;
use rust_dsymbols::generators::dsym_generators::{DSyms, Geometries};
use serde_json::{json, Value};

pub fn spec() -> Spec {
    Spec {
        id: "C11",
        run,
        replay,
        nshards: |_| 16,
        case_cap_s: |t| t.pick(300, 1800),
        rule: "one case per (presentation, subgroup generating set): family 'named' = finite groups with independently known order x every set of <= 2 words of length <= L; family 'exhaustive' = every presentation on 2 generators with <= 3 relators among the rotation/inversion classes of cyclically reduced words of length <= 4 on which the reference Todd-Coxeter (HLT, row cap 300) terminates, x every set of <= 2 words of length <= 2; family 'written-forms' = the named groups with one relator at a time replaced by each of its rotations, their inverses and its conjugates x r x^-1 (freely but not cyclically reduced), x trivial and one-letter subgroups; family 'spherical' = fundamental groups (crate presentation) of all spherical DSyms outputs over DSets(2, <= N) x trivial and one-word subgroups. Oracle: index by the reference Todd-Coxeter (= |G|/|H| where known), columns are mutually inverse permutations, transitive, every relator closes at every row, subgroup generators close at row 0, representatives trace to their rows. Non-trivial = index >= 2 and a non-empty generating set.",
        assumptions: &["family 'spherical' takes its presentations from fundamental_group (C09); any presentation is a valid input for this property, so this is a supply, not a trusted oracle"],
        bounds: |t| json!({"named_word_len": 3, "named_max_words": 2,
            "named_groups_subgroup_word_len": {"2 generators": t.pick(5, 6), "3+ generators": t.pick(3, 4)}, "exhaustive_2gens": {"relator_len": t.pick(5, 6), "max_relators": 3, "sub_word_len": 2, "max_words": 2},
            "exhaustive_3gens": {"relator_len": 3, "max_relators": t.pick(4, 5), "sub_word_len": 2, "max_words": 1}, "ref_row_cap": 300,
            "spherical_dsets_max_size": t.pick(7, 8)}),
    }
}

fn fw(w: &[isize]) -> FreeWord {
    FreeWord::from(w.to_vec())
}

pub fn table_to_action(t: &CosetTable, ng: usize) -> Result<Action, String> {
    let n = t.len();
    let mut rows = vec![];
    for r in 0..n {
        let mut row = vec![];
        for g in 1..=ng as isize {
            for s in [g, -g] {
                match t.get(r, s) {
                    Some(x) if x < n => row.push(x),
                    Some(x) => return Err(format!("entry ({}, {}) = {} is not a row", r, s, x)),
                    None => return Err(format!("entry ({}, {}) is undefined", r, s)),
                }
            }
        }
        rows.push(row);
    }
    Ok(Action { ng, rows })
}

/// structural clauses of the statement on a returned table
pub fn check_action(a: &Action, rels: &[Word], subs: &[Word]) -> Option<String> {
    let n = a.len();
    if n == 0 {
        return Some("table has no rows".into());
    }
    for g in 1..=a.ng as isize {
        for r in 0..n {
            if a.get(a.get(r, g), -g) != r || a.get(a.get(r, -g), g) != r {
                return Some(format!("generator {} and its inverse do not act as mutually inverse permutations at row {}", g, r));
            }
        }
    }
    if !a.is_transitive() {
        return Some("action is not transitive".into());
    }
    for w in rels {
        for r in 0..n {
            if a.trace(r, w) != r {
                return Some(format!("relator {:?} traced from row {} ends in row {}", w, r, a.trace(r, w)));
            }
        }
    }
    for w in subs {
        if a.trace(0, w) != 0 {
            return Some(format!("subgroup generator {:?} traced from row 0 ends in row {}", w, a.trace(0, w)));
        }
    }
    None
}

pub fn check_case(ctx: &mut Ctx, family: &str, ng: usize, rels: &[Word], subs: &[Word], known_order: Option<usize>) {
    let case = json!({"family": family, "ng": ng, "rels": rels, "subs": subs});
    ctx.announce(&case);
    let weight = (rels.iter().map(|r| r.len()).sum::<usize>() + 10 * subs.iter().map(|r| r.len()).sum::<usize>()) as u64;
    // reference index
    let reference = match Tc::run(ng, rels, subs, 3000) {
        Some(a) => a,
        None => return, // infinite or too large index: outside the domain of the statement
    };
    let index = reference.len();
    if let Some(order) = known_order {
        // |H| = orbit of the identity under H in the regular representation
        let reg = Tc::run(ng, rels, &[], 5000).expect("regular representation");
        assert_eq!(reg.len(), order, "reference Todd-Coxeter disagrees with the known order");
        let mut seen = vec![false; reg.len()];
        seen[0] = true;
        let mut st = vec![0];
        while let Some(x) = st.pop() {
            for s in subs {
                for w in [s.clone(), inv_word(s)] {
                    let y = reg.trace(x, &w);
                    if !seen[y] {
                        seen[y] = true;
                        st.push(y);
                    }
                }
            }
        }
        let h = seen.iter().filter(|&&b| b).count();
        assert_eq!(order, index * h, "reference models disagree: |G| = {} index = {} |H| = {}", order, index, h);
    }
    ctx.count(index >= 2 && !subs.is_empty());
    if ctx.want_sample() && index >= 3 && !subs.is_empty() {
        ctx.sample(case.clone());
    }
    ctx.ops(2);
    let rels_fw: Vec<FreeWord> = rels.iter().map(|r| fw(r)).collect();
    let subs_fw: Vec<FreeWord> = subs.iter().map(|r| fw(r)).collect();
    let got = ctx.guard(|| {
        let t = coset_table(ng, &rels_fw, &subs_fw);
        let reps = coset_representative(&t);
        (t, reps)
    });
    let (t, reps) = match got {
        Ok(x) => x,
        Err(m) => {
            ctx.violation("panic:coset_table", case, m, weight);
            return;
        }
    };
    if t.len() != index {
        ctx.violation("row-count", case.clone(), format!("coset table has {} rows, index is {}", t.len(), index), weight);
        return;
    }
    let a = match table_to_action(&t, ng) {
        Ok(a) => a,
        Err(e) => {
            ctx.violation("incomplete-table", case, e, weight);
            return;
        }
    };
    if let Some(why) = check_action(&a, rels, subs) {
        ctx.violation("invalid-table", case.clone(), why, weight);
        return;
    }
    // representatives
    for k in 0..index {
        match reps.get(&k) {
            None => {
                ctx.violation("representatives", case.clone(), format!("no representative for row {}", k), weight);
                return;
            }
            Some(w) => {
                let wv: Word = w.iter().cloned().collect();
                if wv.iter().any(|g| *g == 0 || g.unsigned_abs() > ng) || a.trace(0, &wv) != k {
                    ctx.violation("representatives", case.clone(), format!("representative {:?} of row {} traced from row 0 ends in row {:?}", wv, k, if wv.iter().all(|g| *g != 0 && g.unsigned_abs() <= ng) { Some(a.trace(0, &wv)) } else { None }), weight);
                    return;
                }
            }
        }
    }
    if reps.len() != index {
        ctx.violation("representatives", case.clone(), format!("{} representatives for {} rows", reps.len(), index), weight);
    }
}

fn word_sets(ws: &[Word], max_words: usize) -> Vec<Vec<Word>> {
    let mut out = vec![vec![]];
    for i in 0..ws.len() {
        out.push(vec![ws[i].clone()]);
    }
    if max_words >= 2 {
        for i in 0..ws.len() {
            for j in (i + 1)..ws.len() {
                out.push(vec![ws[i].clone(), ws[j].clone()]);
            }
        }
    }
    out
}

fn run(ctx: &mut Ctx) {
    let tier = ctx.tier;
    validate_todd_coxeter();
    // family named
    for g in finite_groups() {
        // subgroup generators up to length 5 [6] over 2 generators, 3 [4] over more: long generators make
        // coincidences pile up on rows that are already complete (cascades that short words never produce)
        let l = if g.ng <= 2 { tier.pick(5, 6) } else { tier.pick(3, 4) };
        let ws = reduced_words(g.ng, l);
        for subs in word_sets(&ws, 2) {
            if ctx.take() {
                check_case(ctx, "named", g.ng, &g.rels, &subs, g.order);
            }
        }
    }
    // family empty-word: the identity written as the empty word among the subgroup generators and among the
    // relators (it imposes no condition; a generating set computed by a program easily contains it)
    for g in finite_groups() {
        let ws1 = reduced_words(g.ng, 2);
        let mut sets: Vec<Vec<Word>> = vec![vec![vec![]]];
        for w in &ws1 {
            sets.push(vec![vec![], w.clone()]);
            sets.push(vec![w.clone(), vec![]]);
        }
        let mut rels_e = g.rels.clone();
        rels_e.push(vec![]);
        let mut rels_f = vec![vec![]];
        rels_f.extend(g.rels.iter().cloned());
        for subs in sets {
            if ctx.take() {
                check_case(ctx, "empty-word", g.ng, &g.rels, &subs, g.order);
                let nonempty: Vec<Word> = subs.iter().filter(|w| !w.is_empty()).cloned().collect();
                check_case(ctx, "empty-word", g.ng, &rels_e, &nonempty, g.order);
                check_case(ctx, "empty-word", g.ng, &rels_f, &subs, g.order);
            }
        }
    }
    // family written-forms: the group does not depend on how a relator is written.  One relator at a time is
    // replaced by each of its rotations, by the inverses of those, and by a conjugate x r x^-1 (freely but not
    // cyclically reduced); subgroups: trivial, and one generated by each single letter
    for g in finite_groups() {
        let mut letters: Vec<Word> = vec![];
        for a in 1..=g.ng as isize {
            letters.push(vec![a]);
        }
        for (i, r) in g.rels.iter().enumerate() {
            let mut forms: Vec<Word> = vec![];
            for k in 0..r.len() {
                let mut f = r[k..].to_vec();
                f.extend_from_slice(&r[..k]);
                let fi: Word = f.iter().rev().map(|x| -x).collect();
                forms.push(f);
                forms.push(fi);
            }
            for x in 1..=g.ng as isize {
                for sx in [x, -x] {
                    if r.first() != Some(&-sx) && r.last() != Some(&sx) {
                        let mut c = vec![sx];
                        c.extend_from_slice(r);
                        c.push(-sx);
                        forms.push(c);
                    }
                }
            }
            forms.sort();
            forms.dedup();
            for f in forms {
                if &f == r || !ctx.take() {
                    continue;
                }
                let mut rels = g.rels.clone();
                rels[i] = f;
                check_case(ctx, "written-forms", g.ng, &rels, &[], g.order);
                for l in &letters {
                    check_case(ctx, "written-forms", g.ng, &rels, &[l.clone()], g.order);
                }
            }
        }
    }
    // family exhaustive
    for (ng, rel_len, max_rels) in [(2usize, tier.pick(5, 6), 3usize), (3, 3, tier.pick(4, 5))] {
        let classes = cyc_reduced_words(ng, rel_len);
        let ws2 = reduced_words(ng, 2);
        let sets = word_sets(&ws2, if ng == 2 { 2 } else { 1 });
        ctx.add(&format!("relator_classes_{}gens", ng), if ctx.shard == 0 { classes.len() as i64 } else { 0 });
        for p in presentations(&classes, max_rels, false) {
            // only presentations of finite groups of at most 300 elements
            let mut finite: Option<bool> = None;
            for subs in &sets {
                if ctx.take() {
                    if finite.is_none() {
                        finite = Some(Tc::run(ng, &p, &[], 300).is_some());
                    }
                    if finite == Some(true) {
                        check_case(ctx, "exhaustive", ng, &p, subs, None);
                    }
                }
            }
        }
    }
    // family spherical
    let sets: Vec<_> = ctx.supply("DSets::new", || DSets::new(2, tier.pick(7, 8)).collect::<Vec<_>>());
    for ds in sets {
        if !ctx.take() {
            continue;
        }
        let syms = ctx.supply("DSyms::new", || DSyms::new(&ds, Geometries::Spherical).collect::<Vec<_>>());
        for sy in syms {
            let fg = match ctx.supply("fundamental_group", || Some(fundamental_group(&sy))) {
                Some(g) => g,
                None => continue,
            };
            let ng = fg.nr_generators();
            let rels: Vec<Word> = fg.relators.iter().map(|w| w.iter().cloned().collect::<Word>()).filter(|w| !w.is_empty()).collect();
            if ng == 0 {
                continue;
            }
            let _ = sy.size();
            check_case(ctx, "spherical", ng, &rels, &[], None);
            for w in reduced_words(ng, 1).into_iter().chain(reduced_words(ng, 2).into_iter().filter(|w| w.len() == 2 && w[0] > 0 && w[1] > 0)) {
                check_case(ctx, "spherical", ng, &rels, &[w], None);
            }
        }
    }
}

fn words_from(v: &Value) -> Vec<Word> {
    v.as_array().map(|a| a.iter().map(|w| crate::util::isize_list(w)).collect()).unwrap_or_default()
}

fn replay(ctx: &mut Ctx, case: &Value) {
    let ng = case["ng"].as_u64().unwrap_or(2) as usize;
    check_case(ctx, case["family"].as_str().unwrap_or("replay"), ng, &words_from(&case["rels"]), &words_from(&case["subs"]), None);
}
