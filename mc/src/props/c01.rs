//! C01 — D-symbol text form round-trips and parsing never panics.

use crate::engine::*;
use crate::enumerate::symbols::*;
use crate::props::c03::cyclic_covers;
use crate::refmodel::dsym::*;
use crate::util::*;
use rust_dsymbols::dsets::{DSet, SimpleDSet};
use rust_dsymbols::dsyms::{PartialDSym, SimpleDSym};
use rust_dsymbols::generators::dset_generators::DSets;
use rust_dsymbols::generators::dsym_generators::{DSyms, Geometries};
use serde_json::{json, Value};
use std::collections::BTreeSet;

pub fn spec() -> Spec {
    Spec {
        id: "C01",
        run,
        replay,
        nshards: |_| 16,
        case_cap_s: |t| t.pick(60, 300),
        rule: "family 'roundtrip': every labeled complete D-symbol (connected or not) of dimension 1-3 up to the size bound with branching in V, printed from PartialDSym and SimpleDSym, parsed back, compared structurally (dim, size, every op, every v), and printed again; family 'large': harness-built coset symbols of finite Coxeter groups with 10-384 (thorough: 1152) chambers (multi-digit numbers) under 9 systematic renumberings, and generator outputs with >= 10 chambers; family 'edit' (deviation-bounded): deviation 0 = every text of family 'roundtrip' up to the edit size bound, deviation 1 = every single-token edit of it (replace a number by each of 10 boundary values, replace/delete/duplicate/insert a token, truncate), deviation 2 on the texts of symbols of size <= 2 with all v = 1; family 'soup': every string of <= L tokens over a 14-token alphabet. Oracle for every parse: no panic, no abort, returns within the cap; Ok(sym) => every op is a total involution on 1..size, every degree is a multiple of its orbit length (orbit walks of the reference model), and print(sym) parses back to the same symbol. Non-trivial = a text that the parser accepts, or a symbol of size >= 2.",
        assumptions: &["texts are produced by the crate's own Display (that is the property: print then parse)"],
        bounds: |t| json!({"roundtrip_max_size": t.pick(3, 4), "V": [1,2,3], "mid_family": "generator representatives dim 2 sizes 5-8 [9], dim 3 sizes 4-6 [7], dim 4 sizes 2-5 [6], unbranched and one orbit with v = 2 or 12; disjoint unions of two labeled symbols of size <= 2", "huge_degree_family": "sizes <= 2 [3], one orbit with v = 2^b-1, 2^b, 2^b+1 for b in 7,8,15,16,31,32,53,59", "V_at_size_4": [1,2], "edit_max_size": t.pick(2, 3), "edit_size3_only_unbranched_dim2": true,
            "deviation2_max_size": 2, "soup_tokens": t.pick(4, 5), "large_sizes": "10..384 (thorough 1152)", "generator_outputs_min_size": 10, "generator_dsets_max_size": t.pick(10, 11)}),
    }
}

/// what a successfully parsed symbol must satisfy; returns the structural form
fn check_accepted(d: &PartialDSym) -> Result<RS, String> {
    let n = d.size();
    let dim = d.dim();
    if n < 1 || dim < 1 {
        return Err(format!("size {} / dim {}", n, dim));
    }
    if n > 100_000 {
        return Err(format!("accepted a symbol of size {}", n));
    }
    let mut ops = vec![vec![0usize; n]; dim + 1];
    for i in 0..=dim {
        for x in 1..=n {
            match d.op(i, x) {
                Some(y) if y >= 1 && y <= n => ops[i][x - 1] = y - 1,
                other => return Err(format!("op({},{}) = {:?} is not a chamber in 1..={}", i, x, other, n)),
            }
        }
    }
    let mut s = RS::from_ops(ops);
    if !s.is_involutive() {
        return Err("an operation is not an involution".into());
    }
    for i in 0..dim {
        for x in 0..n {
            let r = s.r(i, i + 1, x);
            match d.m(i, i + 1, x + 1) {
                Some(m) if m % r == 0 => s.v[i][x] = m / r,
                other => return Err(format!("m({},{},{}) = {:?} is not a multiple of the orbit length {}", i, i + 1, x + 1, other, r)),
            }
        }
    }
    if !s.v_consistent() {
        return Err("degrees are not constant on a 2-orbit".into());
    }
    Ok(s)
}

/// the parse contract for an arbitrary string
fn check_text(ctx: &mut Ctx, family: &str, text: &str, weight: u64) -> Option<RS> {
    ctx.ops(1);
    let case = json!({"family": family, "text": text});
    let parsed = match ctx.guard(|| text.parse::<PartialDSym>()) {
        Ok(p) => p,
        Err(m) => {
            ctx.violation("panic:parse", case, format!("parsing panicked: {}", m), weight);
            return None;
        }
    };
    let d = match parsed {
        Ok(d) => d,
        Err(_) => return None,
    };
    ctx.add("accepted", 1);
    let s = match ctx.guard(|| check_accepted(&d)) {
        Ok(Ok(s)) => s,
        Ok(Err(why)) => {
            ctx.violation("accepted-invalid", case, format!("parser accepted the text but {}", why), weight);
            return None;
        }
        Err(m) => {
            ctx.violation("panic:query", case, format!("querying the parsed symbol panicked: {}", m), weight);
            return None;
        }
    };
    // print, parse again: the same symbol
    ctx.ops(2);
    match ctx.guard(|| {
        let t = d.to_string();
        let back = t.parse::<PartialDSym>();
        (t, back)
    }) {
        Ok((t, Ok(e))) => match ctx.guard(|| check_accepted(&e)) {
            Ok(Ok(s2)) if s2 == s => {}
            _ => ctx.violation("reprint", case, format!("printed as {:?}, which parses to a different symbol", t), weight),
        },
        Ok((t, Err(e))) => ctx.violation("reprint", case, format!("printed as {:?}, which no longer parses ({})", t, e), weight),
        Err(m) => ctx.violation("panic:reprint", case, m, weight),
    }
    Some(s)
}

fn roundtrip(ctx: &mut Ctx, family: &str, s: &RS) -> Option<String> {
    let case = json!({"family": family, "sym": rs_to_json(s)});
    ctx.announce(&case);
    ctx.count(s.n >= 2);
    let w = s.n as u64;
    let texts = match ctx.guard(|| {
        let p = to_partial_dsym(s);
        let sd: SimpleDSym = p.clone().into();
        (p.to_string(), sd.to_string())
    }) {
        Ok(t) => t,
        Err(m) => {
            ctx.violation("panic:print", case, m, w);
            return None;
        }
    };
    ctx.ops(2);
    if texts.0 != texts.1 {
        // not demanded by the statement (each text only has to round-trip); counted as a diagnostic
        ctx.add("diagnostic_partial_and_simple_print_differently", 1);
    }
    for t in [&texts.0, &texts.1] {
        let before = ctx.nviolations();
        match check_text(ctx, family, t, w) {
            Some(back) => {
                if &back != s {
                    ctx.violation("roundtrip", case.clone(), format!("printed as {:?}, parsed back as {}", t, back.describe()), w);
                }
            }
            None => {
                if ctx.nviolations() == before {
                    ctx.violation("roundtrip", case.clone(), format!("printed as {:?}, which the parser rejects", t), w);
                }
            }
        }
        if texts.0 == texts.1 {
            break;
        }
    }
    Some(texts.0)
}

fn tokenize(v: &str) -> Vec<String> {
    let mut tk: Vec<String> = vec![];
    let cs: Vec<char> = v.chars().collect();
    let mut i = 0;
    while i < cs.len() {
        if cs[i].is_ascii_digit() {
            let mut j = i;
            while j < cs.len() && cs[j].is_ascii_digit() {
                j += 1;
            }
            tk.push(cs[i..j].iter().collect());
            i = j;
        } else {
            tk.push(cs[i].to_string());
            i += 1;
        }
    }
    tk
}

const NUMS: [&str; 10] = ["0", "1", "2", "3", "4", "5", "18446744073709551615", "18446744073709551616", "99999999999999", "4294967296"];
const SEPS: [&str; 8] = ["<", ">", ":", ",", ".", " ", "", "\n"];

fn is_num(t: &str) -> bool {
    !t.is_empty() && t.chars().all(|c| c.is_ascii_digit())
}

fn single_edits(tk: &[String]) -> BTreeSet<String> {
    let mut variants: BTreeSet<String> = BTreeSet::new();
    for k in 0..tk.len() {
        for r in if is_num(&tk[k]) { &NUMS[..] } else { &SEPS[..] } {
            let mut t = tk.to_vec();
            t[k] = r.to_string();
            variants.insert(t.concat());
        }
        let mut t = tk.to_vec();
        t.remove(k);
        variants.insert(t.concat());
        let mut t = tk.to_vec();
        t.insert(k, tk[k].clone());
        variants.insert(t.concat());
        for r in ["1", " 1", "1 ", ",1", ":1", " 0", "2 "] {
            let mut t = tk.to_vec();
            t.insert(k, r.to_string());
            variants.insert(t.concat());
        }
        variants.insert(tk[..k].concat());
    }
    variants
}

fn double_edits(tk: &[String]) -> BTreeSet<String> {
    let mut variants: BTreeSet<String> = BTreeSet::new();
    for a in 0..tk.len() {
        for b in (a + 1)..tk.len() {
            for ra in if is_num(&tk[a]) { &NUMS[..] } else { &SEPS[..] } {
                for rb in if is_num(&tk[b]) { &NUMS[..] } else { &SEPS[..] } {
                    let mut t = tk.to_vec();
                    t[a] = ra.to_string();
                    t[b] = rb.to_string();
                    variants.insert(t.concat());
                }
            }
        }
    }
    variants
}

fn edit_case(ctx: &mut Ctx, base: &str, two: bool) {
    let case = json!({"family": "edit", "base": base, "deviations": if two { 2 } else { 1 }});
    ctx.announce(&case);
    ctx.count(true);
    let tk = tokenize(base);
    let mut vs = single_edits(&tk);
    if two {
        vs.extend(double_edits(&tk));
    }
    for v in &vs {
        ctx.announce(&json!({"family": "edit", "text": v}));
        check_text(ctx, "edit", v, v.len() as u64);
    }
    ctx.add("edited_texts", vs.len() as i64);
}

const TOKS: [&str; 14] = ["<", ">", ":", ",", ".", " ", "\n", "0", "1", "2", "10", "99999999999999999999", "x", "-"];

fn soups(ctx: &mut Ctx, maxlen: usize) {
    for len in 0..=maxlen {
        let mut idx = vec![0usize; len];
        loop {
            if ctx.take() {
                let s: String = idx.iter().map(|&i| TOKS[i]).collect();
                let case = json!({"family": "soup", "text": s});
                ctx.announce(&case);
                ctx.count(false);
                check_text(ctx, "soup", &s, len as u64);
            }
            let mut p = 0;
            loop {
                if p == len {
                    break;
                }
                idx[p] += 1;
                if idx[p] < TOKS.len() {
                    break;
                }
                idx[p] = 0;
                p += 1;
            }
            if p == len {
                break;
            }
        }
    }
}

/// literal texts that exercise the grammar around the valid ones
const LITERALS: [&str; 14] = [
    "<1.1:1:1,1,1:3,3>",
    " < 10.8: 2 3:1 2 , 1 2,  1 2  ,2 :3 3 , 3   4,4 >  ",
    "<1.1:2 3:2,1 2,1 2,2:6,3 2,6>",
    "<1.1:1:1,1,0:3,0>",
    "<1.1:2:3,1 2,1 2:3,3>",
    "<1.1:2:1 1,1 2,1 2:3,3>",
    "<1.1:2:2,1 2,1 2:0 0,3 3>",
    "<1.1:2:2,1 2,1 2:0,3 3>",
    "<1.1:99999999999999:1,1,1:3,3>",
    "<1.1:1 18446744073709551615:1,1,1:3,3>",
    "<1.1:3000000000:1,1,1:3,3>",
    "<1.1:1 0:1:>",
    "<1.1:0:1,1,1:3,3>",
    "<1.1:3:2 3,1 3,1 2 3:3,4 6> trailing",
];

fn run(ctx: &mut Ctx) {
    let tier = ctx.tier;
    for t in LITERALS {
        if ctx.take() {
            let case = json!({"family": "literal", "text": t});
            ctx.announce(&case);
            ctx.count(true);
            check_text(ctx, "literal", t, t.len() as u64);
        }
    }
    // roundtrip + edits
    for dim in 1..=3usize {
        for n in 1..=tier.pick(3, 4) {
            let vals: &[usize] = if n <= 3 { &[1, 2, 3] } else { &[1, 2] };
            for_each_labeled_set(dim, n, true, &mut |ops| {
                for_each_branching(ops, vals, usize::MAX, &mut |s| {
                    if ctx.take() {
                        let text = roundtrip(ctx, "roundtrip", s);
                        if ctx.want_sample() && n == 3 {
                            ctx.sample(json!({"family": "roundtrip", "text": text}));
                        }
                        let unbranched = s.v.iter().all(|r| r.iter().all(|&x| x == 1));
                        let edit = n <= 2 || (n == 3 && (tier.is_thorough() || (dim == 2 && unbranched)));
                        if let (Some(t), true) = (text, edit) {
                            edit_case(ctx, &t, n <= 2 && unbranched);
                        }
                    }
                });
            });
        }
    }
    // huge degrees: every power-of-two boundary of the integer widths, on one orbit at a time
    let mut huge: Vec<usize> = vec![1];
    for b in [7u32, 8, 15, 16, 31, 32, 53, 59] {
        for x in [(1usize << b) - 1, 1usize << b, (1usize << b) + 1] {
            huge.push(x);
        }
    }
    for dim in 1..=3usize {
        for n in 1..=tier.pick(2, 3) {
            for_each_labeled_set(dim, n, true, &mut |ops| {
                for_each_branching(ops, &huge, 1, &mut |s| {
                    if s.v.iter().any(|r| r.iter().any(|&x| x > 1)) && ctx.take() {
                        roundtrip(ctx, "huge-degree", s);
                        ctx.add("huge_degree_symbols", 1);
                    }
                });
            });
        }
    }
    // mid-size symbols: one representative per class of D-sets from the generator in dimensions 2-4 (many have
    // one-chamber or two-chamber orbits for some index pair, i.e. long degree lists), unbranched and with one
    // branched orbit; and disjoint unions of two small symbols (a complete symbol need not be connected)
    {
        use rust_dsymbols::dsets::DSet;
        for (dim, lo, hi) in [(2usize, 5usize, tier.pick(8, 9)), (3, 4, tier.pick(6, 7)), (4, 2, tier.pick(5, 6))] {
            let mut it = ctx.supply("DSets::new", || Some(DSets::new(dim, hi)));
            loop {
                let ds = match it.as_mut().map(|g| ctx.guard(|| g.next())) {
                    Some(Ok(Some(d))) => d,
                    _ => break,
                };
                if ds.size() < lo || !ctx.take() {
                    continue;
                }
                if let Some(plain) = from_dset(&ds) {
                    if plain.is_involutive() {
                        for_each_branching(&plain.ops, &[1, 2, 12], 1, &mut |s| {
                            roundtrip(ctx, "mid", s);
                            ctx.add("mid_symbols", 1);
                        });
                    }
                }
            }
        }
        let mut parts: Vec<RS> = vec![];
        for dim in 2..=3usize {
            for n in 1..=2usize {
                for_each_labeled_set(dim, n, true, &mut |ops| {
                    for_each_branching(ops, &[1, 3], 1, &mut |s| parts.push(s.clone()));
                });
            }
        }
        for a in &parts {
            for b in &parts {
                if a.dim() != b.dim() || !ctx.take() {
                    continue;
                }
                // a on chambers 0..a.n, b shifted behind it; also interleaved so that first-unassigned order mixes them
                let n = a.n + b.n;
                let ops: Vec<Vec<usize>> = (0..=a.dim()).map(|i| a.ops[i].iter().cloned().chain(b.ops[i].iter().map(|&x| x + a.n)).collect()).collect();
                let v: Vec<Vec<usize>> = (0..a.dim()).map(|i| a.v[i].iter().cloned().chain(b.v[i].iter().cloned()).collect()).collect();
                let u = RS { n, ops, v };
                roundtrip(ctx, "union", &u);
                let p: Vec<usize> = (0..n).map(|d| (d * 2) % n + if n % 2 == 0 && d >= n / 2 { 1 } else { 0 }).collect();
                let mut seen = vec![false; n];
                if p.iter().all(|&x| x < n && !std::mem::replace(&mut seen[x], true)) {
                    roundtrip(ctx, "union", &u.relabel(&p));
                }
                ctx.add("union_symbols", 1);
            }
        }
    }
    // large symbols with multi-digit chamber numbers
    let bases: Vec<RS> = vec![
        RS { n: 1, ops: vec![vec![0]; 3], v: vec![vec![120], vec![120]] },
        RS { n: 2, ops: vec![vec![1, 0], vec![0, 1], vec![1, 0]], v: vec![vec![60, 60], vec![120, 120]] },
        RS { n: 2, ops: vec![vec![1, 0], vec![0, 1], vec![0, 1], vec![1, 0]], v: vec![vec![60, 60], vec![120, 120], vec![60, 60]] },
        RS { n: 1, ops: vec![vec![0]; 2], v: vec![vec![120]] },
    ];
    for b in &bases {
        for k in [5usize, 12, 40] {
            for c in cyclic_covers(b, k) {
                for (_, p) in systematic_renumberings(c.n) {
                    if ctx.take() {
                        let t = c.relabel(&p);
                        roundtrip(ctx, "large", &t);
                        ctx.max("largest_symbol", t.n as i64);
                    }
                }
            }
        }
    }
    for (_, c) in coxeter_symbols(tier.pick(400, 1200)) {
        if c.n < 10 {
            continue;
        }
        for (_, p) in systematic_renumberings(c.n) {
            if ctx.take() {
                let t = c.relabel(&p);
                roundtrip(ctx, "large", &t);
                ctx.max("largest_symbol", t.n as i64);
                ctx.add("large_symbols", 1);
            }
        }
    }
    // generator outputs with >= 10 chambers, in the representation they come in
    let sets: Vec<SimpleDSet> = ctx.supply("DSets::new", || DSets::new(2, tier.pick(10, 11)).filter(|d| d.size() >= 10).collect::<Vec<_>>());
    for ds in sets {
        if !ctx.take() {
            continue;
        }
        if let Ok(syms) = ctx.guard(|| DSyms::new(&ds, Geometries::All).take(3).collect::<Vec<_>>()) {
            for sy in syms {
                if let Ok(Some(s)) = ctx.guard(|| from_dsym(&sy)) {
                    let case = json!({"family": "generated", "text": sy.to_string()});
                    ctx.announce(&case);
                    ctx.count(true);
                    let t = sy.to_string();
                    match check_text(ctx, "generated", &t, s.n as u64) {
                        Some(back) if back == s => {}
                        Some(back) => ctx.violation("roundtrip", case, format!("parsed back as {}", back.describe()), s.n as u64),
                        None => ctx.violation("roundtrip", case, "generator output text is rejected by the parser".into(), s.n as u64),
                    }
                }
            }
        }
    }
    soups(ctx, tier.pick(4, 5));
}

fn replay(ctx: &mut Ctx, case: &Value) {
    if let Some(t) = case["text"].as_str() {
        ctx.count(true);
        check_text(ctx, case["family"].as_str().unwrap_or("replay"), t, t.len() as u64);
    } else if let Some(s) = rs_from_json(&case["sym"]) {
        roundtrip(ctx, "roundtrip", &s);
    } else if let Some(b) = case["base"].as_str() {
        edit_case(ctx, b, case["deviations"].as_u64() == Some(2));
    }
}
