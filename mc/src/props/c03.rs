//! C03 — canonical form is a complete isomorphism invariant.

use crate::engine::*;
use crate::enumerate::symbols::*;
use crate::refmodel::dsym::*;
use crate::util::*;
use rust_dsymbols::derived::canonical;
use rust_dsymbols::dsyms::{PartialDSym, SimpleDSym};
use serde_json::{json, Value};

pub fn spec() -> Spec {
    Spec {
        id: "C03",
        run,
        replay,
        nshards: |_| 16,
        case_cap_s: |t| t.pick(120, 900),
        rule: "one case per labeled connected commuting symbol (every labeling of every symbol occurs, so all renumberings are covered); for each: canonical(s) isomorphic to s (n! oracle), canonical is idempotent, canonical(s) == canonical(class representative) where the representative is the minimum over all n! relabelings (=> equal forms iff isomorphic); large family: harness-built coset symbols of finite Coxeter groups (up to hundreds of chambers) under systematic renumberings. Non-trivial = size >= 2 and not equal to its own class representative.",
        assumptions: &["symbols are built through build_set/build_sym_using_vs (validated by C02)"],
        bounds: |t| json!({"dim1_max_size": 5, "dim2_max_size": t.pick(4, 5), "dim3_max_size": t.pick(3, 4), "V": [1,2,3],
            "dim2_size6_max_two_branched_orbits": t.is_thorough(), "dim3_size4_V": [1,2],
            "rotations": "class representatives of D-sets of dim 3 size 8 [8-9] and dim 2 size 11 [11-12]: unbranched, uniform degrees and four fully branched assignments under the systematic renumberings AND every rotation of the chamber numbers", "mid": "class representatives of D-sets from the generator: dim 2 sizes 5-10 [6-12], dim 3 sizes 4-7 [8], dim 1 sizes 6-12 [16]; V = {1,2,3} on <= 1 [2] orbits (dim 1: 2), plus uniform degrees (m = lcm of orbit lengths), every single orbit doubled, and four assignments with every orbit branched; 9 systematic renumberings each",
            "large": "coset symbols of finite Coxeter groups [3,3] [4,3] [5,3] [2,12] [7,2] [3,3,3] [4,3,3] ([3,4,3] thorough) modulo small subgroups, built by the reference Todd-Coxeter, 8-384 (thorough 1152) chambers, 9 systematic renumberings each"}),
    }
}

fn check_one(ctx: &mut Ctx, s: &RS, class_rep: Option<&RS>, family: &str) {
    let case = json!({"family": family, "sym": rs_to_json(s)});
    ctx.announce(&case);
    let w = s.n as u64;
    let rep = match class_rep {
        Some(r) => r.clone(),
        None => s.iso_key_all_perms(),
    };
    ctx.count(s.n >= 2 && &rep != s);
    if ctx.want_sample() && s.n >= 3 {
        ctx.sample(case.clone());
    }
    let r = ctx.guard(|| {
        let cs = to_partial_dsym(s);
        let c = canonical(&cs);
        let cc = canonical(&c);
        let sd: SimpleDSym = cs.clone().into();
        let c_simple = canonical(&sd);
        let crep = canonical(&to_partial_dsym(&rep));
        (from_dsym(&c), from_dsym(&cc), from_dsym(&c_simple), from_dsym(&crep))
    });
    ctx.ops(4);
    let (c, cc, c_simple, crep) = match r {
        Ok((Some(a), Some(b), Some(c), Some(d))) => (a, b, c, d),
        Ok(_) => {
            ctx.violation("incomplete", case, "canonical form is not a complete symbol".into(), w);
            return;
        }
        Err(m) => {
            ctx.violation("panic:canonical", case, m, w);
            return;
        }
    };
    if valid_symbol(&c).is_err() || c.n != s.n {
        ctx.violation("invalid", case.clone(), format!("canonical form is not a valid symbol of the same size: {}", c.describe()), w);
        return;
    }
    // isomorphic to the input: equal class keys
    let key_c = if class_rep.is_some() { c.iso_key_bfs() } else { c.iso_key_all_perms() };
    let key_s = if class_rep.is_some() { s.iso_key_bfs() } else { rep.clone() };
    if key_c != key_s {
        ctx.violation("not-isomorphic", case.clone(), format!("canonical form {} is not isomorphic to the input", c.describe()), w);
    }
    if cc != c {
        ctx.violation("not-fixpoint", case.clone(), format!("canonical(canonical(s)) = {} differs from canonical(s) = {}", cc.describe(), c.describe()), w);
    }
    if c_simple != c {
        ctx.violation("representation", case.clone(), "canonical of the SimpleDSym differs from canonical of the PartialDSym".into(), w);
    }
    if crep != c {
        ctx.violation(
            "class-splits",
            case.clone(),
            format!("canonical(s) = {} but canonical of the isomorphic symbol {} is {}", c.describe(), rep.describe(), crep.describe()),
            w,
        );
    }
}

/// k-sheeted cyclic cover: crossing an i-edge at d advances the sheet by w(i, d) mod k,
/// with w antisymmetric along edges; only valid (all degrees divisible) covers are kept
pub fn cyclic_covers(base: &RS, k: usize) -> Vec<RS> {
    let mut out = vec![];
    let dim = base.dim();
    // weights: one generator per (i, d) with d <= op_i(d); try all single-edge weightings
    for i in 0..=dim {
        for d in 0..base.n {
            let e = base.ops[i][d];
            if e < d {
                continue;
            }
            for wt in 1..k {
                if e == d && (2 * wt) % k != 0 {
                    continue; // a loop edge must be an involution on sheets
                }
                let shift = move |j: usize, x: usize, s: usize| -> usize {
                    if j == i && x == d {
                        (s + wt) % k
                    } else if j == i && x == e {
                        (s + k - wt) % k
                    } else {
                        s
                    }
                };
                let c = base.cover_by(k, &shift);
                if c.v.iter().all(|r| r.iter().all(|&x| x > 0)) && c.is_involutive() && c.is_connected() && c.commutes() {
                    out.push(c);
                }
            }
        }
    }
    out
}

fn large_family(ctx: &mut Ctx) {
    // base symbols with large degrees so that many cyclic covers are valid
    let bases: Vec<RS> = vec![
        RS { n: 1, ops: vec![vec![0]; 3], v: vec![vec![120], vec![120]] },
        RS { n: 2, ops: vec![vec![1, 0], vec![0, 1], vec![1, 0]], v: vec![vec![60, 60], vec![120, 120]] },
        RS { n: 1, ops: vec![vec![0]; 4], v: vec![vec![120], vec![120], vec![120]] },
        RS { n: 2, ops: vec![vec![1, 0], vec![0, 1], vec![0, 1], vec![1, 0]], v: vec![vec![60, 60], vec![120, 120], vec![60, 60]] },
    ];
    for b in &bases {
        for k in [5usize, 12, 40] {
            for c in cyclic_covers(b, k) {
                let rn = systematic_renumberings(c.n);
                let first = c.relabel(&rn[0].1);
                for (_, p) in &rn {
                    if ctx.take() {
                        let t = c.relabel(p);
                        check_one(ctx, &t, Some(&first), "large");
                        ctx.max("largest_symbol", t.n as i64);
                    }
                }
            }
        }
    }
    // quotients and universal covers of finite Coxeter groups, built by the reference Todd-Coxeter
    for (_, c) in coxeter_symbols(ctx.tier.pick(400, 1200)) {
        if c.n < 8 {
            continue;
        }
        let rn = systematic_renumberings(c.n);
        let first = c.relabel(&rn[0].1);
        for (_, p) in &rn {
            if ctx.take() {
                let t = c.relabel(p);
                check_one(ctx, &t, Some(&first), "large");
                ctx.max("largest_symbol", t.n as i64);
                ctx.add("large_symbols", 1);
            }
        }
    }
}

/// mid-size family: one representative per class of D-sets (supplied by the crate's generator, which C06
/// validates), few branched orbits, 9 systematic renumberings each.  Renumbering invariance is what larger
/// chiral / asymmetric symbols stress; the n! oracle is replaced by the BFS class key.
fn mid_family(ctx: &mut Ctx) {
    use rust_dsymbols::dsets::DSet;
    use rust_dsymbols::generators::dset_generators::DSets;
    let tier = ctx.tier;
    for (dim, lo, hi, maxb) in [(2usize, tier.pick(5, 6), tier.pick(10, 12), tier.pick(1, 2)), (3, 4, tier.pick(7, 8), tier.pick(1, 2)), (1, 6, tier.pick(12, 16), 2)] {
        let mut it = ctx.supply("DSets::new", || Some(DSets::new(dim, hi)));
        loop {
            let ds = match it.as_mut().map(|g| ctx.guard(|| g.next())) {
                Some(Ok(Some(d))) => d,
                Some(Err(m)) => {
                    ctx.cap_hit(format!("input supplier DSets::next panicked ({}): the rest of the mid-size family was NOT explored", m));
                    break;
                }
                _ => break,
            };
            if ds.size() < lo || !ctx.take() {
                continue;
            }
            let plain = match from_dset(&ds) {
                Some(p) if p.is_involutive() && p.is_connected() && p.commutes() => p,
                _ => continue, // C06's business
            };
            let rn = systematic_renumberings(plain.n);
            for_each_branching(&plain.ops, &[1, 2, 3], maxb, &mut |s| {
                let first = s.relabel(&rn[0].1);
                for (_, p) in &rn {
                    let t = s.relabel(p);
                    check_one(ctx, &t, Some(&first), "mid");
                    ctx.add("mid_symbols", 1);
                }
            });
            // uniform degrees (maximal symmetry: many start chambers tie), single deviations from them, and
            // assignments in which every orbit is branched
            for s in structured_assignments(&plain.ops) {
                let first = s.relabel(&rn[0].1);
                for (_, p) in &rn {
                    let t = s.relabel(p);
                    check_one(ctx, &t, Some(&first), "mid");
                    ctx.add("mid_symbols", 1);
                }
            }
        }
    }
}

/// one size further than the mid family, with few assignments per D-set (unbranched, uniform degrees, four fully
/// branched ones) but more numberings: every rotation d -> d + c of the chamber numbers besides the systematic
/// family (a tie between two start chambers only shows when the numbering puts the wrong one first)
fn rotations_family(ctx: &mut Ctx) {
    use rust_dsymbols::dsets::DSet;
    use rust_dsymbols::generators::dset_generators::DSets;
    let tier = ctx.tier;
    for (dim, lo, hi) in [(3usize, 8usize, tier.pick(8, 9)), (2, 11, tier.pick(11, 12))] {
        let mut it = ctx.supply("DSets::new", || Some(DSets::new(dim, hi)));
        loop {
            let ds = match it.as_mut().map(|g| ctx.guard(|| g.next())) {
                Some(Ok(Some(d))) => d,
                Some(Err(m)) => {
                    ctx.cap_hit(format!("input supplier DSets::next panicked ({}): the rest of the rotations family was NOT explored", m));
                    break;
                }
                _ => break,
            };
            if ds.size() < lo || !ctx.take() {
                continue;
            }
            let plain = match from_dset(&ds) {
                Some(p) if p.is_involutive() && p.is_connected() && p.commutes() => p,
                _ => continue,
            };
            let n = plain.n;
            let mut rn: Vec<Vec<usize>> = systematic_renumberings(n).into_iter().map(|x| x.1).collect();
            for c in 1..n {
                let p: Vec<usize> = (0..n).map(|d| (d + c) % n).collect();
                if !rn.contains(&p) {
                    rn.push(p);
                }
            }
            let mut syms: Vec<RS> = vec![RS { n, ops: plain.ops.clone(), v: vec![vec![1; n]; dim] }];
            let st = structured_assignments(&plain.ops);
            let k = st.len();
            syms.push(st[0].clone());
            syms.extend(st[k - 4..].iter().cloned());
            for s in syms {
                let first = s.relabel(&rn[0]);
                for p in &rn {
                    let t = s.relabel(p);
                    check_one(ctx, &t, Some(&first), "rotations");
                    ctx.add("rotation_symbols", 1);
                }
            }
        }
    }
}

fn run(ctx: &mut Ctx) {
    let tier = ctx.tier;
    let mut fams: Vec<(usize, usize, Vec<usize>, usize)> = vec![];
    for n in 1..=5 {
        fams.push((1, n, vec![1, 2, 3], usize::MAX));
    }
    for n in 1..=tier.pick(4, 5) {
        fams.push((2, n, vec![1, 2, 3], usize::MAX));
    }
    for n in 1..=3 {
        fams.push((3, n, vec![1, 2, 3], usize::MAX));
    }
    if tier.is_thorough() {
        fams.push((2, 6, vec![1, 2, 3], 2));
        fams.push((3, 4, vec![1, 2], usize::MAX));
    }
    for (dim, n, vals, maxb) in fams {
        for_each_connected_symbol(dim, n, &vals, maxb, &mut |s| {
            if ctx.take() {
                check_one(ctx, s, None, "labeled");
            }
        });
    }
    large_family(ctx);
    mid_family(ctx);
    rotations_family(ctx);
    // degrees beyond 2^62 (as long as every m = r * v is representable): codes that are compared by subtraction
    // or through a signed type go wrong when two degrees are 2^63 apart
    {
        let wide: Vec<usize> = vec![1, 3, 1 << 62, 1 << 63, (1 << 63) + 3, usize::MAX];
        for dim in 2..=3usize {
            for n in 1..=tier.pick(2usize, 3usize) {
                for_each_labeled_set(dim, n, true, &mut |ops| {
                    if !ops_connected(ops) {
                        return;
                    }
                    let plain = RS::from_ops(ops.clone());
                    for_each_branching(ops, &wide, 2, &mut |s| {
                        let representable = (0..s.dim()).all(|i| (0..s.n).all(|d| plain.r(i, i + 1, d).checked_mul(s.v[i][d]).is_some()));
                        let huge = s.v.iter().any(|r| r.iter().any(|&x| x > 3));
                        if representable && huge && ctx.take() {
                            let first = s.clone();
                            for p in perms(s.n) {
                                let t = s.relabel(&p);
                                check_one(ctx, &t, Some(&first), "huge-degree");
                            }
                            ctx.add("huge_degree_symbols", 1);
                        }
                    });
                });
            }
        }
    }
}

fn replay(ctx: &mut Ctx, case: &Value) {
    if let Some(s) = rs_from_json(&case["sym"]) {
        if s.n <= 7 {
            check_one(ctx, &s, None, "labeled");
        } else {
            let p: Vec<usize> = (0..s.n).map(|d| (d + 1) % s.n).collect();
            let t = s.relabel(&p);
            check_one(ctx, &s, Some(&t), "large");
        }
    }
    let _: Option<PartialDSym> = None;
}
