//! C09 — the fundamental-group presentation presents the orbifold fundamental group.

use crate::engine::*;
use crate::enumerate::symbols::*;
use crate::props::c04::two_sheeted_covers;
use crate::refmodel::conway;
use crate::refmodel::dsym::*;
use crate::refmodel::groups::*;
use crate::refmodel::pi1::*;
use crate::util::*;
use rust_dsymbols::dsets::DSet;
use rust_dsymbols::dsyms::DSym;
use rust_dsymbols::fundamental_group::{fundamental_group, inner_edges};
use rust_dsymbols::generators::dset_generators::DSets;
use rust_dsymbols::generators::dsym_generators::{DSyms, Geometries};
use serde_json::{json, Value};
use std::collections::BTreeSet;

pub fn spec() -> Spec {
    Spec {
        id: "C09",
        run,
        replay,
        nshards: |_| 16,
        case_cap_s: |t| t.pick(300, 3600),
        rule: "one case per connected complete symbol: every labeled 2- and 3-dimensional symbol of size <= 3 with branching in {1,2,3} (every labeling), every DSyms output over DSets(2, <= N), the harness-built 2-sheeted covers of the labeled symbols of size <= 2, (thorough) 3-dimensional size 4 with branching {1,2}. Structural clauses read off the returned maps; group clauses against the textbook presentation built by the reference model: equal abelian invariants, equal subgroup class counts up to an index, for finite groups equal order (= 4/K for good spherical 2D symbols) and mutually inverse generator maps verified in the regular representations. Non-trivial = at least one generator.",
        assumptions: &["class counts are compared only while (n!)^generators <= 2*10^6 for both presentations; skipped comparisons are counted in the evidence"],
        bounds: |t| json!({"labeled_max_size": 3, "V": [1,2,3], "dsyms_dsets_max_size": t.pick(8, 10), "class_index": 4, "deep_class_index": t.pick(5, 6), "deep_class_node_cap": t.pick(3000, 200000), "degenerate_degree_family": "every generator D-set of dim 2 with 4-9 [10] chambers and dim 3 with 4-6 [8], unbranched and with one orbit at v = 2 or 3", "larger_3d_symbols": "corpus, prisms over euclidean 2D symbols of size <= 3 [4], admissible symbols of size <= 2 [3] with branching 4 or 6, 3D Coxeter coset symbols to 48 [120] chambers", "order_cap": 3000, "dim3_size4": t.pick("V = {1,2}", "V = {1,2,3} with <= 3 branched orbits")}),
    }
}

fn word_of(w: &rust_dsymbols::fpgroups::free_words::FreeWord) -> Word {
    w.iter().cloned().collect()
}

/// canonical representative of the conjugacy class of w or w^-1 in the free group
pub fn cyc_key(w: &[isize]) -> Word {
    let mut v = free_reduce(w);
    while v.len() >= 2 && v[0] == -v[v.len() - 1] {
        v.pop();
        v.remove(0);
    }
    if v.is_empty() {
        return v;
    }
    let mut best: Option<Word> = None;
    for x in [v.clone(), inv_word(&v)] {
        for i in 0..x.len() {
            let r: Word = [&x[i..], &x[..i]].concat();
            if best.as_ref().map_or(true, |b| r < *b) {
                best = Some(r);
            }
        }
    }
    best.unwrap()
}

fn is_reduced(w: &[isize]) -> bool {
    !w.contains(&0) && w.windows(2).all(|p| p[0] != -p[1])
}

fn budget(ngens: usize, n: usize) -> bool {
    let f: f64 = (1..=n).product::<usize>() as f64;
    f.powi(ngens as i32) <= 2.0e6
}

pub fn check_symbol(ctx: &mut Ctx, family: &str, s: &RS) {
    let case = json!({"family": family, "sym": rs_to_json(s)});
    ctx.announce(&case);
    let weight = (s.n * 10 + s.dim()) as u64;
    let dim = s.dim();
    let n = s.n;
    ctx.ops(1);
    let fg = match ctx.guard(|| {
        let cs = to_partial_dsym(s);
        let fg = fundamental_group(&cs);
        let ie = inner_edges(&cs);
        (fg, ie)
    }) {
        Ok(x) => x,
        Err(m) => {
            ctx.violation("panic:fundamental_group", case, m, weight);
            return;
        }
    };
    let (fg, _inner) = fg;
    let ng = fg.nr_generators();
    ctx.count(ng >= 1);
    if ctx.want_sample() && ng >= 2 && s.n >= 3 {
        ctx.sample(json!({"case": case, "generators": ng, "relators": fg.relators.iter().map(word_of).collect::<Vec<_>>()}));
    }
    let word = |d: usize, i: usize| -> Word { fg.edge_to_word.get(&(d + 1, i)).map(word_of).unwrap_or_default() };
    // ---- structural clauses
    let mut why: Option<String> = None;
    if fg.gen_to_edge.keys().cloned().collect::<Vec<_>>() != (1..=ng).collect::<Vec<_>>() {
        why = Some(format!("generators are not numbered 1..={}", ng));
    }
    let mut pairs_seen: BTreeSet<(usize, usize)> = BTreeSet::new();
    for (&g, &(d, i)) in &fg.gen_to_edge {
        if d < 1 || d > n || i > dim {
            why = Some(format!("generator {} sits on ({}, {}), which is not a facet", g, d, i));
            break;
        }
        let e = s.ops[i][d - 1];
        let w = word(d - 1, i);
        if !(w == vec![g as isize] || w == vec![-(g as isize)]) {
            why = Some(format!("the facet ({}, {}) of generator {} carries the word {:?}", d, i, g, w));
        }
        if !pairs_seen.insert(((d - 1).min(e), i)) {
            why = Some(format!("two generators sit on the same facet pair ({}, {})", d, i));
        }
    }
    for (&(d, i), w) in &fg.edge_to_word {
        let w = word_of(w);
        if d < 1 || d > n || i > dim {
            why = Some(format!("edge_to_word has the key ({}, {}), which is not a facet", d, i));
            break;
        }
        if !is_reduced(&w) || w.iter().any(|x| x.unsigned_abs() > ng) {
            why = Some(format!("the word {:?} on facet ({}, {}) is not a freely reduced word in the generators", w, d, i));
        }
    }
    for d in 0..n {
        for i in 0..=dim {
            let e = s.ops[i][d];
            if e != d && word(e, i) != inv_word(&word(d, i)) {
                why = Some(format!("the words on the two sides of the facet ({}, {}) / ({}, {}) are {:?} and {:?}", d + 1, i, e + 1, i, word(d, i), word(e, i)));
            }
        }
    }
    let crels: Vec<Word> = fg.relators.iter().map(word_of).collect();
    for r in &crels {
        if !is_reduced(r) || r.iter().any(|x| x.unsigned_abs() > ng) {
            why = Some(format!("relator {:?} is not a freely reduced word in the generators", r));
        }
    }
    // cones
    let mut exp: BTreeSet<(Word, usize)> = BTreeSet::new();
    for i in 0..=dim {
        for j in (i + 1)..=dim {
            let mut done = vec![false; n];
            for d in 0..n {
                if done[d] {
                    continue;
                }
                let mut w: Word = vec![];
                let mut e = d;
                loop {
                    w.extend(word(e, i));
                    done[e] = true;
                    e = s.ops[i][e];
                    done[e] = true;
                    w.extend(word(e, j));
                    e = s.ops[j][e];
                    if e == d {
                        break;
                    }
                }
                let v = s.v_any(i, j, d);
                if v > 1 {
                    exp.insert((cyc_key(&w), v));
                }
            }
        }
    }
    let mut got: BTreeSet<(Word, usize)> = BTreeSet::new();
    for (w, v) in &fg.cones {
        let w = word_of(w);
        if !is_reduced(&w) {
            why = Some(format!("cone word {:?} is not freely reduced", w));
        }
        got.insert((cyc_key(&w), *v));
    }
    if got != exp {
        why = Some(format!("cone list {:?} (as conjugacy classes) differs from the branched 2-orbits {:?}", got, exp));
    }
    if let Some(w) = why {
        ctx.violation("structure", case.clone(), w, weight);
        return;
    }
    // ---- group clauses against the textbook presentation
    let tb = textbook_pi1(s);
    let nonempty: Vec<Word> = crels.iter().filter(|r| !r.is_empty()).cloned().collect();
    ctx.ops(1);
    let a1 = abelian_invariants_of_presentation(ng, &nonempty);
    let a2 = abelian_invariants_of_presentation(tb.ngens, &tb.rels);
    if a1 != a2 {
        ctx.violation("abelianisation", case.clone(), format!("crate presentation <{} | {:?}> has H1 {:?}, textbook presentation has {:?}", ng, crels, a1, a2), weight);
        return;
    }
    let kmax = 4;
    for idx in 1..=kmax {
        if budget(ng, idx) && budget(tb.ngens, idx) {
            ctx.ops(1);
            let c1 = count_classes(ng, &nonempty, idx);
            let c2 = count_classes(tb.ngens, &tb.rels, idx);
            if c1 != c2 {
                ctx.violation("class-count", case.clone(), format!("index {}: crate presentation <{} | {:?}> has {} classes, textbook presentation {}", idx, ng, crels, c1, c2), weight);
                return;
            }
            ctx.add("class_counts_compared", 1);
        } else {
            ctx.add("class_counts_skipped_for_cost", 1);
        }
    }
    // deeper indices with the reference backtracking search on both presentations (bounded effort per symbol)
    {
        let t_deep = std::time::Instant::now();
        let kdeep = ctx.tier.pick(5, 6);
        let cap = ctx.tier.pick(3_000u64, 200_000u64);
        match (low_index_ref(ng, &nonempty, kdeep, cap), low_index_ref(tb.ngens, &tb.rels, kdeep, cap)) {
            (Some(l1), Some(l2)) => {
                let per = |l: &Vec<Action>| -> Vec<usize> {
                    let mut by = vec![0usize; kdeep + 1];
                    for a in l {
                        by[a.len()] += 1;
                    }
                    by[1..].to_vec()
                };
                ctx.ops(1);
                ctx.add("deep_class_counts_compared", 1);
                if per(&l1) != per(&l2) {
                    ctx.violation("class-count", case.clone(), format!("classes of subgroups per index 1..{}: crate presentation <{} | {:?}> has {:?}, textbook presentation {:?}", kdeep, ng, crels, per(&l1), per(&l2)), weight);
                    return;
                }
            }
            _ => ctx.add("deep_class_counts_skipped_for_cost", 1),
        }
        ctx.add("cpu_ms_deep_class_counts", t_deep.elapsed().as_millis() as i64);
    }
    // finite groups: order and isomorphism by generator maps
    let o2 = Tc::run(tb.ngens, &tb.rels, &[], 3000);
    let o1 = if ng == 0 { Some(Action { ng: 0, rows: vec![vec![]] }) } else { Tc::run(ng, &nonempty, &[], 3000) };
    match (&o1, &o2) {
        (Some(r1), Some(r2)) => {
            ctx.ops(1);
            ctx.add("finite_groups", 1);
            if r1.len() != r2.len() {
                ctx.violation("order", case.clone(), format!("crate presentation has order {}, textbook presentation {}", r1.len(), r2.len()), weight);
                return;
            }
            if dim == 2 {
                let (kn, kd) = s.curvature2d();
                if kn > 0 {
                    // good spherical orbifolds: |G| = 4/K
                    let good = good_spherical(s);
                    if good && (4 * kd) % kn == 0 && (4 * kd / kn) as usize != r1.len() {
                        ctx.violation("order", case.clone(), format!("order {} but 4/K = {}", r1.len(), 4 * kd / kn), weight);
                        return;
                    }
                }
            }
            // psi: textbook generator on facet (d, i) -> crate word of the loop p_d (d,i) p_e^-1, where p_x is
            // the path from chamber 1 to x in the reference model's BFS tree (its facets are trivial in the
            // textbook group but not necessarily in the crate's words).  psi is the change-of-base-point map;
            // it is an isomorphism iff it is a homomorphism and onto, the orders being equal.
            let mut path_word: Vec<Option<Word>> = vec![None; n];
            path_word[0] = Some(vec![]);
            let mut q = std::collections::VecDeque::from([0usize]);
            while let Some(d) = q.pop_front() {
                for i in 0..=dim {
                    let e = s.ops[i][d];
                    if path_word[e].is_none() && tb.facet[d][i].is_empty() {
                        let mut w = path_word[d].clone().unwrap();
                        w.extend(word(d, i));
                        path_word[e] = Some(w);
                        q.push_back(e);
                    }
                }
            }
            let mut psi: Vec<Word> = vec![vec![]; tb.ngens];
            for d in 0..n {
                for i in 0..=dim {
                    let f = &tb.facet[d][i];
                    if f.len() == 1 && f[0] > 0 {
                        let e = s.ops[i][d];
                        let mut w = path_word[d].clone().unwrap_or_default();
                        w.extend(word(d, i));
                        w.extend(inv_word(&path_word[e].clone().unwrap_or_default()));
                        psi[f[0] as usize - 1] = free_reduce(&w);
                    }
                }
            }
            let subst = |w: &[isize], img: &Vec<Word>| -> Word {
                let mut out = vec![];
                for &x in w {
                    let g = &img[x.unsigned_abs() - 1];
                    if x > 0 {
                        out.extend_from_slice(g);
                    } else {
                        out.extend(inv_word(g));
                    }
                }
                out
            };
            let mut bad = None;
            for r in &tb.rels {
                let img = subst(r, &psi);
                if ng > 0 && r1.trace(0, &img) != 0 {
                    bad = Some(format!("the words on the facets are inconsistent: the textbook relator {:?} reads {:?} in the returned words, which is not trivial in the presented group", r, free_reduce(&img)));
                }
                if ng == 0 && !free_reduce(&img).is_empty() {
                    bad = Some("a textbook relator reads as a non-empty word but there are no generators".into());
                }
            }
            if ng > 0 {
                let images: Vec<Word> = psi.iter().filter(|w| !w.is_empty()).cloned().collect();
                match Tc::run(ng, &nonempty, &images, 3000) {
                    Some(a) if a.len() == 1 => {}
                    other => bad = Some(format!("the loops of the textbook generators, read in the returned words, generate a subgroup of index {:?} of the presented group", other.map(|a| a.len()))),
                }
            }
            if let Some(b) = bad {
                ctx.violation("isomorphism", case.clone(), b, weight);
            }
        }
        (None, None) => {}
        (a, b) => {
            // one enumeration finished within the cap, the other did not: decide with a larger cap for the loser
            let big1 = if a.is_none() { Tc::run(ng, &nonempty, &[], 60000).map(|x| x.len()) } else { a.as_ref().map(|x| x.len()) };
            let big2 = if b.is_none() { Tc::run(tb.ngens, &tb.rels, &[], 60000).map(|x| x.len()) } else { b.as_ref().map(|x| x.len()) };
            if big1 != big2 {
                ctx.violation("order", case.clone(), format!("crate presentation has order {:?}, textbook presentation {:?} (None = more than 60000 or infinite)", big1, big2), weight);
            }
        }
    }
}

/// good spherical orbifold, decided from the definitions: not a tear-drop / spindle
pub fn good_spherical(s: &RS) -> bool {
    !conway::is_bad(&conway::orbifold_of(s))
}

fn run(ctx: &mut Ctx) {
    let tier = ctx.tier;
    for dim in 2..=3usize {
        for n in 1..=3usize {
            for_each_connected_symbol(dim, n, &[1, 2, 3], usize::MAX, &mut |s| {
                if ctx.take() {
                    check_symbol(ctx, "labeled", s);
                    if n <= 2 {
                        for c in two_sheeted_covers(s) {
                            check_symbol(ctx, "two-sheeted cover", &c);
                        }
                    }
                }
            });
        }
    }
    {
        let v4: &[usize] = if tier.is_thorough() { &[1, 2, 3] } else { &[1, 2] };
        for_each_connected_symbol(3, 4, v4, if tier.is_thorough() { 3 } else { usize::MAX }, &mut |s| {
            if ctx.take() {
                check_symbol(ctx, "labeled", s);
            }
        });
    }
    // larger 3-dimensional symbols: the known-euclidean corpus, prisms over the euclidean 2-dimensional symbols
    // of size <= 3 [4], admissible symbols with branching 4 and 6, Coxeter coset symbols up to 48 [120] chambers
    {
        use crate::props::common3d::{admissible_symbols, corpus, euclidean_2d_symbols, prism_over};
        let mut list: Vec<(&str, RS)> = vec![];
        for (_, c) in corpus() {
            list.push(("corpus", c));
        }
        for t in euclidean_2d_symbols(tier.pick(3, 4)) {
            if let Some(p) = prism_over(&t) {
                if valid_symbol(&p).is_ok() && p.commutes() {
                    list.push(("prism", p));
                }
            }
        }
        for n in 1..=tier.pick(2, 3) {
            for a in admissible_symbols(n) {
                if a.v.iter().any(|r| r.iter().any(|&x| x >= 4)) {
                    list.push(("admissible", a));
                }
            }
        }
        for (_, c) in coxeter_symbols(tier.pick(48, 120)) {
            if c.dim() == 3 && c.n >= 5 {
                list.push(("coxeter", c));
            }
        }
        for (fam, sy) in list {
            if ctx.take() {
                ctx.add("larger_3d_symbols", 1);
                check_symbol(ctx, fam, &sy);
            }
        }
    }
    // every D-set of the generator with the degenerate degrees the symbol generator never assigns (faces and
    // vertices of degree 1 and 2: v = 1 on every orbit, and one orbit with v = 2 or 3): dimension 2 up to 9 [10]
    // chambers, dimension 3 up to 6 [8]
    {
        use rust_dsymbols::dsets::DSet;
        for (dim, hi, step) in [(2usize, tier.pick(9, 10), 1usize), (3, tier.pick(6, 8), 1)] {
            let mut it = ctx.supply("DSets::new", || Some(DSets::new(dim, hi)));
            let mut k = 0usize;
            loop {
                let ds = match it.as_mut().map(|g| ctx.guard(|| g.next())) {
                    Some(Ok(Some(d))) => d,
                    _ => break,
                };
                k += 1;
                if ds.size() < 4 || k % step != 0 || !ctx.take() {
                    continue;
                }
                if let Some(plain) = from_dset(&ds) {
                    if plain.is_involutive() && plain.is_connected() && plain.commutes() {
                        let maxb = if plain.n <= 8 { 1 } else { 0 };
                        for_each_branching(&plain.ops, &[1, 2, 3], maxb, &mut |sy| {
                            ctx.add("degenerate_degree_symbols", 1);
                            check_symbol(ctx, "unbranched", sy);
                        });
                    }
                }
            }
        }
    }
    let sets: Vec<_> = ctx.supply("DSets::new", || DSets::new(2, tier.pick(8, 10)).collect::<Vec<_>>());
    for ds in sets {
        if !ctx.take() {
            continue;
        }
        let syms = ctx.supply("DSyms::new", || DSyms::new(&ds, Geometries::All).collect::<Vec<_>>());
        for sy in syms {
            if let Ok(Some(s)) = ctx.guard(|| from_dsym(&sy)) {
                let _ = (sy.size(), sy.v(0, 1, 1));
                check_symbol(ctx, "generated", &s);
            }
        }
    }
}

fn replay(ctx: &mut Ctx, case: &Value) {
    if let Some(s) = rs_from_json(&case["sym"]) {
        check_symbol(ctx, "replay", &s);
    }
}
