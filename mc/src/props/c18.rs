//! C18 — exact linear algebra agrees with rational arithmetic for every backend.

use crate::engine::*;
use num_bigint::BigInt;
use num_rational::BigRational;
use num_traits::{One, Signed, Zero};
use rust_dsymbols::geometry::matrix::Matrix;
use rust_dsymbols::geometry::modular_solver;
use rust_dsymbols::geometry::prime_residue_classes::PrimeResidueClass;
use rust_dsymbols::geometry::traits::Array2d;
use rust_dsymbols::geometry::vec_matrix::VecMatrix;
use serde_json::{json, Value};

pub fn spec() -> Spec {
    Spec {
        id: "C18",
        run,
        replay,
        nshards: |_| 16,
        case_cap_s: |t| t.pick(300, 3600),
        rule: "family 'small': every r x c integer matrix with r, c <= 3 and entries in [-2, 2] ([-1, 1] for 3 x 3 at the quick tier), in the backends i64, BigRational and PrimeResidueClass<P> for P in {2, 3, 5, 7, 61, 3037000493}, and through the const-generic Matrix (hook wrappers) for i64 and BigRational; for each matrix rank, determinant, null space, inverse and solve against every right-hand side in {-1,0,1}^r; family 'four': 4 x 4 (and 3 x 4, 4 x 3) matrices with entries in {-1,0,1} and <= 2 non-zeros per row; family 'big': all 2 x 2 / 3 x 3 matrices over {0, 1, -1, 10^9, -999999937} for BigRational and the p-adic solver; family 'walk': shapes up to 6 x 6 reached from diagonal seeds by unimodular operations; family 'residues': field axioms on all pairs/triples for 5 small primes, canonical representative for every integer in [-3P, 3P] and boundary integers of the large prime through From<i64> and From<i32>; family 'padic': modular_solver::solve against Cramer's rule. Oracle: exact arithmetic on BigInt fractions - rank = size of the largest non-zero minor, determinant by Laplace expansion, consistency by rank(A) = rank(A|b), returned solutions verified by multiplication. Non-trivial = rank >= 1 and not full rank or a non-unit determinant.",
        assumptions: &["num-bigint / num-rational arithmetic is trusted (third-party); the reference algorithms (minors, Laplace, Cramer) are different from the crate's elimination", "the i64 backend is only required to be sound for solve (Some(x) => A x = b) and exact for rank / determinant / null space while no intermediate overflows; entries are tiny there"],
        bounds: |t| json!({"small_entries": 2, "small_3x3_entries": t.pick(1, 2), "rhs_entries": [-1, 0, 1], "four_nonzeros_per_row": 2, "big_alphabet": [0, 1, -1, 1000000000i64, -999999937i64],
            "walk_max_shape": 6, "walk_depth": t.pick(2, 3), "padic_3x3_entries": 1, "padic_3x3_rhs": if t.is_thorough() { 27 } else { 3 }, "padic_2x2_entries": t.pick(3, 4), "big_i64_family": "i64 backend on 1 x n and n x 1 (n <= 4 [5]) and 2 x 2 matrices over 9 values up to 10^9 in size; one entry of size 2^31.5 .. 2^61 among entries of size <= 2 on the shapes 1 x 2, 2 x 1, 1 x 3, 3 x 1, 2 x 2", "padic_multi_column_rhs": "every ordered choice of 2 or 3 of {zero, small, 10^5-sized, 10^9-sized} columns on every padic-family matrix (3x3: the first 6 at the quick tier)"}),
    }
}

type Mat = Vec<Vec<i64>>;

// --- R8: exact reference -----------------------------------------------------------------

fn det_big(m: &Vec<Vec<BigInt>>) -> BigInt {
    let n = m.len();
    if n == 0 {
        return BigInt::one();
    }
    if n == 1 {
        return m[0][0].clone();
    }
    let mut d = BigInt::zero();
    for c in 0..n {
        if m[0][c].is_zero() {
            continue;
        }
        let minor: Vec<Vec<BigInt>> = (1..n).map(|r| (0..n).filter(|&x| x != c).map(|x| m[r][x].clone()).collect()).collect();
        let t = &m[0][c] * det_big(&minor);
        if c % 2 == 0 {
            d += t;
        } else {
            d -= t;
        }
    }
    d
}

fn det_i128(m: &Vec<Vec<i128>>) -> i128 {
    let n = m.len();
    match n {
        0 => 1,
        1 => m[0][0],
        2 => m[0][0] * m[1][1] - m[0][1] * m[1][0],
        _ => {
            let mut d = 0i128;
            for c in 0..n {
                if m[0][c] == 0 {
                    continue;
                }
                let minor: Vec<Vec<i128>> = (1..n).map(|r| (0..n).filter(|&x| x != c).map(|x| m[r][x]).collect()).collect();
                let t = m[0][c] * det_i128(&minor);
                if c % 2 == 0 {
                    d += t;
                } else {
                    d -= t;
                }
            }
            d
        }
    }
}

fn small_entries(m: &Vec<Vec<BigInt>>) -> Option<Vec<Vec<i128>>> {
    use num_traits::ToPrimitive;
    let lim = BigInt::from(100_000);
    let mut out = vec![];
    for r in m {
        let mut row = vec![];
        for x in r {
            if x.abs() > lim {
                return None;
            }
            row.push(x.to_i128().unwrap());
        }
        out.push(row);
    }
    Some(out)
}

fn to_big(m: &Mat) -> Vec<Vec<BigInt>> {
    m.iter().map(|r| r.iter().map(|&x| BigInt::from(x)).collect()).collect()
}

fn subsets(n: usize, k: usize) -> Vec<Vec<usize>> {
    fn rec(n: usize, k: usize, start: usize, cur: &mut Vec<usize>, out: &mut Vec<Vec<usize>>) {
        if cur.len() == k {
            out.push(cur.clone());
            return;
        }
        for i in start..n {
            cur.push(i);
            rec(n, k, i + 1, cur, out);
            cur.pop();
        }
    }
    let mut out = vec![];
    rec(n, k, 0, &mut vec![], &mut out);
    out
}

/// rank over Q (modulus None) or over F_p: size of the largest non-vanishing minor
fn rank_ref(m: &Vec<Vec<BigInt>>, ncols: usize, modulus: Option<i64>) -> usize {
    if let (Some(sm), true) = (small_entries(m), m.len().max(ncols) <= 6) {
        // entries <= 10^5 and size <= 6: every minor fits i128 comfortably
        let nrows = sm.len();
        let mut rank = 0;
        for k in 1..=nrows.min(ncols) {
            let mut found = false;
            'search: for rs in subsets(nrows, k) {
                for cs in subsets(ncols, k) {
                    let sub: Vec<Vec<i128>> = rs.iter().map(|&r| cs.iter().map(|&c| sm[r][c]).collect()).collect();
                    let d = det_i128(&sub);
                    let nz = match modulus {
                        None => d != 0,
                        Some(p) => d % (p as i128) != 0,
                    };
                    if nz {
                        found = true;
                        break 'search;
                    }
                }
            }
            if found {
                rank = k;
            } else {
                break;
            }
        }
        return rank;
    }
    let nrows = m.len();
    let mut rank = 0;
    for k in 1..=nrows.min(ncols) {
        let mut found = false;
        'search: for rs in subsets(nrows, k) {
            for cs in subsets(ncols, k) {
                let sub: Vec<Vec<BigInt>> = rs.iter().map(|&r| cs.iter().map(|&c| m[r][c].clone()).collect()).collect();
                let d = det_big(&sub);
                let nz = match modulus {
                    None => !d.is_zero(),
                    Some(p) => !(d % BigInt::from(p)).is_zero(),
                };
                if nz {
                    found = true;
                    break 'search;
                }
            }
        }
        if found {
            rank = k;
        } else {
            break;
        }
    }
    rank
}

/// rank([A|b]) == rank(A), given rank(A): every (rank+1)-minor of [A|b] through the b column vanishes
fn consistent_ref(a: &Vec<Vec<BigInt>>, ncols: usize, b: &[i64], rank: usize, modulus: Option<i64>) -> bool {
    let nrows = a.len();
    if rank == nrows {
        return true;
    }
    if let Some(sm) = small_entries(a) {
        let k = rank + 1;
        for rs in subsets(nrows, k) {
            for cs in subsets(ncols, k - 1) {
                let sub: Vec<Vec<i128>> = rs.iter().map(|&r| cs.iter().map(|&c| sm[r][c]).chain([b[r] as i128]).collect()).collect();
                let d = det_i128(&sub);
                let nz = match modulus {
                    None => d != 0,
                    Some(p) => d % (p as i128) != 0,
                };
                if nz {
                    return false;
                }
            }
        }
        return true;
    }
    let bm: Vec<Vec<BigInt>> = b.iter().map(|&x| vec![BigInt::from(x)]).collect();
    rank_ref(&hcat(a, &bm), ncols + 1, modulus) == rank
}

fn hcat(a: &Vec<Vec<BigInt>>, b: &Vec<Vec<BigInt>>) -> Vec<Vec<BigInt>> {
    a.iter().zip(b.iter()).map(|(x, y)| x.iter().chain(y.iter()).cloned().collect()).collect()
}

// --- conversions -------------------------------------------------------------------------

fn vm_i64(m: &Mat, ncols: usize) -> VecMatrix<i64> {
    let mut v = VecMatrix::new(m.len(), ncols);
    for (i, r) in m.iter().enumerate() {
        for (j, &x) in r.iter().enumerate() {
            v[i][j] = x;
        }
    }
    v
}

fn vm_q(m: &Mat, ncols: usize) -> VecMatrix<BigRational> {
    let mut v = VecMatrix::new(m.len(), ncols);
    for (i, r) in m.iter().enumerate() {
        for (j, &x) in r.iter().enumerate() {
            v[i][j] = BigRational::from(BigInt::from(x));
        }
    }
    v
}

fn vm_p<const P: i64>(m: &Mat, ncols: usize) -> VecMatrix<PrimeResidueClass<P>> {
    let mut v = VecMatrix::new(m.len(), ncols);
    for (i, r) in m.iter().enumerate() {
        for (j, &x) in r.iter().enumerate() {
            v[i][j] = PrimeResidueClass::<P>::from(x);
        }
    }
    v
}

fn q_rows(v: &VecMatrix<BigRational>) -> Vec<Vec<BigRational>> {
    (0..v.nr_rows()).map(|i| (0..v.nr_columns()).map(|j| v[i][j].clone()).collect()).collect()
}

// --- generic checks over a field backend, written once per backend by a small trait -----

trait Backend {
    type T: Clone + PartialEq + std::fmt::Debug;
    const NAME: &'static str;
    const MODULUS: Option<i64>;
    const FIELD: bool;
    fn from_i64(x: i64) -> Self::T;
    fn from_big(x: &BigInt) -> Self::T;
    fn is_zero(x: &Self::T) -> bool;
    fn mul(a: &Self::T, b: &Self::T) -> Self::T;
    fn add(a: &Self::T, b: &Self::T) -> Self::T;
    fn build(m: &Mat, ncols: usize) -> VecMatrix<Self::T>;
    fn rank(v: &VecMatrix<Self::T>) -> usize;
    fn det(v: &VecMatrix<Self::T>) -> Self::T;
    fn null(v: &VecMatrix<Self::T>) -> VecMatrix<Self::T>;
    fn null_list_len(v: &VecMatrix<Self::T>) -> usize;
    fn solve(v: &VecMatrix<Self::T>, b: &VecMatrix<Self::T>) -> Option<VecMatrix<Self::T>>;
    fn inverse(v: &VecMatrix<Self::T>) -> Option<VecMatrix<Self::T>>;
    /// entries of a result matrix as integers (for rank of the null space): only for i64 / residues
    fn entry_to_big(x: &Self::T) -> Option<BigInt>;
}

struct BI64;
impl Backend for BI64 {
    type T = i64;
    const NAME: &'static str = "i64";
    const MODULUS: Option<i64> = None;
    const FIELD: bool = false;
    fn from_i64(x: i64) -> i64 {
        x
    }
    fn from_big(x: &BigInt) -> i64 {
        use num_traits::ToPrimitive;
        x.to_i64().unwrap_or(i64::MAX)
    }
    fn is_zero(x: &i64) -> bool {
        *x == 0
    }
    fn mul(a: &i64, b: &i64) -> i64 {
        a * b
    }
    fn add(a: &i64, b: &i64) -> i64 {
        a + b
    }
    fn build(m: &Mat, ncols: usize) -> VecMatrix<i64> {
        vm_i64(m, ncols)
    }
    fn rank(v: &VecMatrix<i64>) -> usize {
        v.rank()
    }
    fn det(v: &VecMatrix<i64>) -> i64 {
        v.determinant()
    }
    fn null(v: &VecMatrix<i64>) -> VecMatrix<i64> {
        v.null_space_matrix()
    }
    fn null_list_len(v: &VecMatrix<i64>) -> usize {
        v.null_space().len()
    }
    fn solve(v: &VecMatrix<i64>, b: &VecMatrix<i64>) -> Option<VecMatrix<i64>> {
        v.solve(b)
    }
    fn inverse(v: &VecMatrix<i64>) -> Option<VecMatrix<i64>> {
        v.inverse()
    }
    fn entry_to_big(x: &i64) -> Option<BigInt> {
        Some(BigInt::from(*x))
    }
}

struct BQ;
impl Backend for BQ {
    type T = BigRational;
    const NAME: &'static str = "BigRational";
    const MODULUS: Option<i64> = None;
    const FIELD: bool = true;
    fn from_i64(x: i64) -> BigRational {
        BigRational::from(BigInt::from(x))
    }
    fn from_big(x: &BigInt) -> BigRational {
        BigRational::from(x.clone())
    }
    fn is_zero(x: &BigRational) -> bool {
        x.is_zero()
    }
    fn mul(a: &BigRational, b: &BigRational) -> BigRational {
        a * b
    }
    fn add(a: &BigRational, b: &BigRational) -> BigRational {
        a + b
    }
    fn build(m: &Mat, ncols: usize) -> VecMatrix<BigRational> {
        vm_q(m, ncols)
    }
    fn rank(v: &VecMatrix<BigRational>) -> usize {
        v.rank()
    }
    fn det(v: &VecMatrix<BigRational>) -> BigRational {
        v.determinant()
    }
    fn null(v: &VecMatrix<BigRational>) -> VecMatrix<BigRational> {
        v.null_space_matrix()
    }
    fn null_list_len(v: &VecMatrix<BigRational>) -> usize {
        v.null_space().len()
    }
    fn solve(v: &VecMatrix<BigRational>, b: &VecMatrix<BigRational>) -> Option<VecMatrix<BigRational>> {
        v.solve(b)
    }
    fn inverse(v: &VecMatrix<BigRational>) -> Option<VecMatrix<BigRational>> {
        v.inverse()
    }
    fn entry_to_big(_: &BigRational) -> Option<BigInt> {
        None
    }
}

struct BP<const P: i64>;
impl<const P: i64> Backend for BP<P> {
    type T = PrimeResidueClass<P>;
    const NAME: &'static str = "PrimeResidueClass";
    const MODULUS: Option<i64> = Some(P);
    const FIELD: bool = true;
    fn from_i64(x: i64) -> Self::T {
        PrimeResidueClass::<P>::from(x)
    }
    fn from_big(x: &BigInt) -> Self::T {
        use num_traits::ToPrimitive;
        let p = BigInt::from(P);
        let r = ((x % &p) + &p) % &p;
        PrimeResidueClass::<P>::from(r.to_i64().unwrap())
    }
    fn is_zero(x: &Self::T) -> bool {
        x.is_zero()
    }
    fn mul(a: &Self::T, b: &Self::T) -> Self::T {
        *a * *b
    }
    fn add(a: &Self::T, b: &Self::T) -> Self::T {
        *a + *b
    }
    fn build(m: &Mat, ncols: usize) -> VecMatrix<Self::T> {
        vm_p::<P>(m, ncols)
    }
    fn rank(v: &VecMatrix<Self::T>) -> usize {
        v.rank()
    }
    fn det(v: &VecMatrix<Self::T>) -> Self::T {
        v.determinant()
    }
    fn null(v: &VecMatrix<Self::T>) -> VecMatrix<Self::T> {
        v.null_space_matrix()
    }
    fn null_list_len(v: &VecMatrix<Self::T>) -> usize {
        v.null_space().len()
    }
    fn solve(v: &VecMatrix<Self::T>, b: &VecMatrix<Self::T>) -> Option<VecMatrix<Self::T>> {
        v.solve(b)
    }
    fn inverse(v: &VecMatrix<Self::T>) -> Option<VecMatrix<Self::T>> {
        v.inverse()
    }
    fn entry_to_big(x: &Self::T) -> Option<BigInt> {
        let v: i64 = (*x).into();
        Some(BigInt::from(v))
    }
}

/// i64 backend on matrices with large entries: every comparison in BigInt (the harness's own generic helpers
/// multiply in the backend's type, which would overflow here)
fn check_i64_big(ctx: &mut Ctx, family: &str, m: &Mat, ncols: usize, rhs: &[Vec<i64>], weight: u64) {
    let nrows = m.len();
    let case = json!({"family": family, "backend": "i64", "rows": m, "ncols": ncols});
    ctx.announce(&case);
    let big = to_big(m);
    let rank = rank_ref(&big, ncols, None);
    let a = vm_i64(m, ncols);
    let to_b = |v: &VecMatrix<i64>| -> Vec<Vec<BigInt>> { (0..v.nr_rows()).map(|i| (0..v.nr_columns()).map(|j| BigInt::from(v[i][j])).collect()).collect() };
    let mul = |x: &Vec<Vec<BigInt>>, y: &Vec<Vec<BigInt>>| -> Vec<Vec<BigInt>> {
        let inner = y.len();
        let cols = if inner > 0 { y[0].len() } else { 0 };
        x.iter().map(|row| (0..cols).map(|j| (0..inner).fold(BigInt::zero(), |s, k| s + &row[k] * &y[k][j])).collect()).collect()
    };
    ctx.ops(1);
    match ctx.guard(|| a.rank()) {
        Ok(r) if r == rank => {}
        Ok(r) => {
            ctx.violation("rank", case.clone(), format!("rank = {}, expected {}", r, rank), weight);
            return;
        }
        Err(msg) => {
            ctx.violation("panic:rank", case.clone(), msg, weight);
            return;
        }
    }
    if nrows == ncols {
        let d = det_big(&big);
        ctx.ops(1);
        match ctx.guard(|| a.determinant()) {
            Ok(g) if BigInt::from(g) == d => {}
            Ok(g) => {
                ctx.violation("determinant", case.clone(), format!("determinant = {}, expected {}", g, d), weight);
                return;
            }
            Err(msg) => {
                ctx.violation("panic:determinant", case.clone(), msg, weight);
                return;
            }
        }
        ctx.ops(1);
        match ctx.guard(|| a.inverse()) {
            Ok(Some(inv)) => {
                let p = mul(&big, &to_b(&inv));
                let ok = (0..nrows).all(|i| (0..nrows).all(|j| p[i][j] == if i == j { BigInt::one() } else { BigInt::zero() }));
                if !ok {
                    ctx.violation("inverse", case.clone(), "A * inverse is not the identity".into(), weight);
                    return;
                }
            }
            Ok(None) => {}
            Err(msg) => {
                ctx.violation("panic:inverse", case.clone(), msg, weight);
                return;
            }
        }
    }
    ctx.ops(1);
    match ctx.guard(|| a.null_space_matrix()) {
        Ok(ns) => {
            let nb = to_b(&ns);
            let cols = ns.nr_columns();
            let wanted = ncols - rank;
            let zero = if cols == 0 { true } else { mul(&big, &nb).iter().all(|r| r.iter().all(|x| x.is_zero())) };
            // independence: rank of the transposed null-space matrix
            let nt: Vec<Vec<BigInt>> = (0..cols).map(|j| (0..ns.nr_rows()).map(|i| nb[i][j].clone()).collect()).collect();
            let indep = cols == 0 || rank_ref(&nt, ns.nr_rows(), None) == cols;
            if (wanted == 0 && cols != 0 && !(cols == 1 && nb.iter().all(|r| r[0].is_zero()))) && !(zero && indep && cols == wanted) {
                ctx.violation("null-space", case.clone(), format!("null space has {} columns, expected {}", cols, wanted), weight);
                return;
            }
            if wanted > 0 && !(zero && indep && cols == wanted) {
                ctx.violation("null-space", case.clone(), format!("null space: {} columns (expected {}), annihilated = {}, independent = {}", cols, wanted, zero, indep), weight);
                return;
            }
        }
        Err(msg) => {
            ctx.violation("panic:null_space", case.clone(), msg, weight);
            return;
        }
    }
    for b in rhs {
        if b.len() != nrows {
            continue;
        }
        ctx.ops(1);
        let bm: Mat = b.iter().map(|&x| vec![x]).collect();
        let bv = vm_i64(&bm, 1);
        match ctx.guard(|| a.solve(&bv)) {
            Ok(Some(x)) => {
                let p = mul(&big, &to_b(&x));
                if !(0..nrows).all(|i| p[i][0] == BigInt::from(b[i])) {
                    ctx.violation("solve-wrong", json!({"family": family, "backend": "i64", "rows": m, "ncols": ncols, "rhs": b}), "solve returned a vector that is not a solution".into(), weight);
                    return;
                }
            }
            Ok(None) => {}
            Err(msg) => {
                ctx.violation("panic:solve", json!({"family": family, "backend": "i64", "rows": m, "ncols": ncols, "rhs": b}), msg, weight);
                return;
            }
        }
    }
}

fn matmul<B: Backend>(a: &VecMatrix<B::T>, b: &VecMatrix<B::T>) -> Vec<Vec<B::T>> {
    let mut out = vec![];
    for i in 0..a.nr_rows() {
        let mut row = vec![];
        for j in 0..b.nr_columns() {
            let mut s = B::from_i64(0);
            for k in 0..a.nr_columns() {
                s = B::add(&s, &B::mul(&a[i][k], &b[k][j]));
            }
            row.push(s);
        }
        out.push(row);
    }
    out
}

/// rank of a result matrix over Q by fraction-free reasoning: for BigRational clear denominators per column
fn rank_of_result<B: Backend>(v: &VecMatrix<B::T>, as_q: Option<&VecMatrix<BigRational>>) -> usize {
    let (r, c) = (v.nr_rows(), v.nr_columns());
    let mut m: Vec<Vec<BigInt>> = vec![vec![BigInt::zero(); c]; r];
    if let Some(q) = as_q {
        for j in 0..c {
            let mut l = BigInt::one();
            for i in 0..r {
                let d = q[i][j].denom().clone();
                let g = num_integer_gcd(&l, &d);
                l = &l * &d / g;
            }
            for i in 0..r {
                m[i][j] = (&q[i][j] * BigRational::from(l.clone())).to_integer();
            }
        }
    } else {
        for i in 0..r {
            for j in 0..c {
                m[i][j] = B::entry_to_big(&v[i][j]).unwrap();
            }
        }
    }
    rank_ref(&m, c, B::MODULUS)
}

fn num_integer_gcd(a: &BigInt, b: &BigInt) -> BigInt {
    let (mut a, mut b) = (a.abs(), b.abs());
    while !b.is_zero() {
        let t = &a % &b;
        a = b;
        b = t;
    }
    if a.is_zero() {
        BigInt::one()
    } else {
        a
    }
}

fn all_rhs(nrows: usize) -> Vec<Vec<i64>> {
    let mut out = vec![];
    let total = 3usize.pow(nrows as u32);
    for code in 0..total {
        let mut c = code;
        let mut v = vec![];
        for _ in 0..nrows {
            v.push((c % 3) as i64 - 1);
            c /= 3;
        }
        out.push(v);
    }
    out
}

fn check_backend<B: Backend>(ctx: &mut Ctx, family: &str, m: &Mat, ncols: usize, rhs: &[Vec<i64>], weight: u64)
where
    VecMatrix<B::T>: Clone,
{
    let nrows = m.len();
    let case = json!({"family": family, "backend": B::NAME, "modulus": B::MODULUS, "rows": m, "ncols": ncols});
    let big = to_big(m);
    let rank = rank_ref(&big, ncols, B::MODULUS);
    let a = B::build(m, ncols);
    // rank
    ctx.ops(1);
    match ctx.guard(|| B::rank(&a)) {
        Ok(r) => {
            if r != rank {
                ctx.violation("rank", case.clone(), format!("rank = {}, expected {}", r, rank), weight);
                return;
            }
        }
        Err(msg) => {
            ctx.violation("panic:rank", case.clone(), msg, weight);
            return;
        }
    }
    // determinant, inverse
    if nrows == ncols {
        let d = det_big(&big);
        ctx.ops(2);
        match ctx.guard(|| B::det(&a)) {
            Ok(g) => {
                if g != B::from_big(&d) {
                    ctx.violation("determinant", case.clone(), format!("determinant = {:?}, expected {}", g, d), weight);
                }
            }
            Err(msg) => ctx.violation("panic:determinant", case.clone(), msg, weight),
        }
        let invertible = rank == nrows;
        match ctx.guard(|| B::inverse(&a)) {
            Ok(Some(inv)) => {
                let prod = matmul::<B>(&a, &inv);
                let ok = inv.nr_rows() == nrows && inv.nr_columns() == nrows && (0..nrows).all(|i| (0..nrows).all(|j| prod[i][j] == B::from_i64(if i == j { 1 } else { 0 })));
                if !ok {
                    ctx.violation("inverse", case.clone(), "inverse returned a matrix that is not the inverse".into(), weight);
                }
            }
            Ok(None) => {
                if B::FIELD && invertible && nrows > 0 {
                    ctx.violation("inverse", case.clone(), "inverse is None for a non-singular matrix".into(), weight);
                }
            }
            Err(msg) => ctx.violation("panic:inverse", case.clone(), msg, weight),
        }
    }
    // null space
    ctx.ops(2);
    match ctx.guard(|| (B::null(&a), B::null_list_len(&a))) {
        Ok((ns, list_len)) => {
            let mut why = None;
            if ns.nr_columns() != ncols - rank || list_len != ncols - rank {
                why = Some(format!("null space has {} columns (list: {}), expected {}", ns.nr_columns(), list_len, ncols - rank));
            } else if ns.nr_columns() > 0 {
                if ns.nr_rows() != ncols {
                    why = Some(format!("null space vectors have {} entries, expected {}", ns.nr_rows(), ncols));
                } else {
                    let prod = matmul::<B>(&a, &ns);
                    if !prod.iter().all(|r| r.iter().all(|x| B::is_zero(x))) {
                        why = Some("a null space column is not annihilated by the matrix".into());
                    } else {
                        // independence
                        let q: Option<VecMatrix<BigRational>> = if B::NAME == "BigRational" {
                            // safe: B::T is BigRational here; rebuild through Debug-free path
                            None
                        } else {
                            None
                        };
                        let _ = q;
                        let r = if B::NAME == "BigRational" { independent_q::<B>(&ns) } else { rank_of_result::<B>(&ns, None) };
                        if r != ns.nr_columns() {
                            why = Some("null space columns are linearly dependent".into());
                        }
                    }
                }
            }
            if let Some(w) = why {
                ctx.violation("null-space", case.clone(), w, weight);
            }
        }
        Err(msg) => ctx.violation("panic:null_space", case.clone(), msg, weight),
    }
    // solve
    for b in rhs {
        ctx.ops(1);
        let bm: Mat = b.iter().map(|&x| vec![x]).collect();
        let consistent = consistent_ref(&big, ncols, b, rank, B::MODULUS);
        let bv = B::build(&bm, 1);
        let scase = json!({"family": family, "backend": B::NAME, "modulus": B::MODULUS, "rows": m, "ncols": ncols, "rhs": b});
        match ctx.guard(|| B::solve(&a, &bv)) {
            Ok(Some(x)) => {
                let ok = x.nr_rows() == ncols && x.nr_columns() == 1 && {
                    let prod = matmul::<B>(&a, &x);
                    (0..nrows).all(|i| prod[i][0] == bv[i][0])
                };
                if !ok {
                    ctx.violation("solve-wrong", scase, "solve returned something that is not a solution".into(), weight);
                    return;
                }
            }
            Ok(None) => {
                if B::FIELD && consistent {
                    ctx.violation("solve-missed", scase, "solve returned None for a consistent system".into(), weight);
                    return;
                }
            }
            Err(msg) => {
                ctx.violation("panic:solve", scase, msg, weight);
                return;
            }
        }
    }
}

/// independence of BigRational columns: clear denominators and use the minor rank
fn independent_q<B: Backend>(ns: &VecMatrix<B::T>) -> usize {
    // B::T is BigRational; go through Debug-independent arithmetic: scale columns by testing
    // minors directly in the backend's own field arithmetic (Laplace expansion)
    fn det<B: Backend>(m: &Vec<Vec<B::T>>) -> B::T {
        let n = m.len();
        if n == 0 {
            return B::from_i64(1);
        }
        if n == 1 {
            return m[0][0].clone();
        }
        let mut d = B::from_i64(0);
        for c in 0..n {
            let minor: Vec<Vec<B::T>> = (1..n).map(|r| (0..n).filter(|&x| x != c).map(|x| m[r][x].clone()).collect()).collect();
            let t = B::mul(&m[0][c], &det::<B>(&minor));
            let t = if c % 2 == 0 { t } else { B::mul(&t, &B::from_i64(-1)) };
            d = B::add(&d, &t);
        }
        d
    }
    let (r, c) = (ns.nr_rows(), ns.nr_columns());
    let mut rank = 0;
    for k in 1..=r.min(c) {
        let mut found = false;
        'search: for rs in subsets(r, k) {
            for cs in subsets(c, k) {
                let sub: Vec<Vec<B::T>> = rs.iter().map(|&i| cs.iter().map(|&j| ns[i][j].clone()).collect()).collect();
                if !B::is_zero(&det::<B>(&sub)) {
                    found = true;
                    break 'search;
                }
            }
        }
        if found {
            rank = k;
        } else {
            break;
        }
    }
    rank
}

// --- const-generic Matrix through the hook wrappers ---------------------------------------

macro_rules! generic_shape {
    ($ctx:expr, $m:expr, $n:literal, $c:literal, $weight:expr) => {{
        let m: &Mat = $m;
        let case = json!({"family": "generic", "backend": "Matrix<i64/BigRational>", "rows": m, "ncols": $c});
        let big = to_big(m);
        let rank = rank_ref(&big, $c, None);
        let mut mi = Matrix::<i64, $n, $c>::new();
        let mut mq = Matrix::<BigRational, $n, $c>::new();
        for i in 0..$n {
            for j in 0..$c {
                mi[i][j] = m[i][j];
                mq[i][j] = BigRational::from(BigInt::from(m[i][j]));
            }
        }
        $ctx.ops(4);
        match $ctx.guard(|| (mi.verif_rank(), mq.verif_rank(), mi.verif_null_space().len(), mq.verif_null_space().len())) {
            Ok((r1, r2, n1, n2)) => {
                if r1 != rank || r2 != rank {
                    $ctx.violation("rank", case.clone(), format!("Matrix rank = {} (i64) / {} (BigRational), expected {}", r1, r2, rank), $weight);
                } else if n1 != $c - rank || n2 != $c - rank {
                    $ctx.violation("null-space", case.clone(), format!("Matrix null space has {} / {} vectors, expected {}", n1, n2, $c - rank), $weight);
                }
            }
            Err(msg) => $ctx.violation("panic:generic", case.clone(), msg, $weight),
        }
        // null space vectors are annihilated
        if let Ok(ns) = $ctx.guard(|| mq.verif_null_space()) {
            for v in ns {
                for i in 0..$n {
                    let mut s = BigRational::zero();
                    for j in 0..$c {
                        s += &mq[i][j] * &v[j][0];
                    }
                    if !s.is_zero() {
                        $ctx.violation("null-space", case.clone(), "Matrix null space vector is not annihilated".into(), $weight);
                    }
                }
            }
        }
        // solve against every rhs
        for b in all_rhs($n).into_iter().enumerate().filter(|(k, _)| $n < 4 || k % 17 == 0).map(|(_, b)| b) {
            let bm: Mat = b.iter().map(|&x| vec![x]).collect();
            let consistent = consistent_ref(&big, $c, &b, rank, None);
            let mut bq = Matrix::<BigRational, $n, 1>::new();
            let mut bi = Matrix::<i64, $n, 1>::new();
            for i in 0..$n {
                bq[i][0] = BigRational::from(BigInt::from(b[i]));
                bi[i][0] = b[i];
            }
            $ctx.ops(2);
            let scase = json!({"family": "generic", "rows": m, "ncols": $c, "rhs": b});
            match $ctx.guard(|| (mq.verif_solve(&bq), mi.verif_solve(&bi))) {
                Ok((xq, xi)) => {
                    match xq {
                        Some(x) => {
                            let ok = (0..$n).all(|i| {
                                let mut s = BigRational::zero();
                                for j in 0..$c {
                                    s += &mq[i][j] * &x[j][0];
                                }
                                s == bq[i][0]
                            });
                            if !ok {
                                $ctx.violation("solve-wrong", scase.clone(), "Matrix<BigRational>::solve returned a non-solution".into(), $weight);
                            }
                        }
                        None => {
                            if consistent {
                                $ctx.violation("solve-missed", scase.clone(), "Matrix<BigRational>::solve returned None for a consistent system".into(), $weight);
                            }
                        }
                    }
                    if let Some(x) = xi {
                        let ok = (0..$n).all(|i| (0..$c).map(|j| mi[i][j] * x[j][0]).sum::<i64>() == b[i]);
                        if !ok {
                            $ctx.violation("solve-wrong", scase.clone(), "Matrix<i64>::solve returned a non-solution".into(), $weight);
                        }
                    }
                }
                Err(msg) => $ctx.violation("panic:generic-solve", scase, msg, $weight),
            }
        }
    }};
}

macro_rules! generic_square {
    ($ctx:expr, $m:expr, $n:literal, $weight:expr) => {{
        let m: &Mat = $m;
        let case = json!({"family": "generic", "backend": "Matrix<i64/BigRational>", "rows": m, "ncols": $n});
        let d = det_big(&to_big(m));
        let mut mi = Matrix::<i64, $n, $n>::new();
        let mut mq = Matrix::<BigRational, $n, $n>::new();
        for i in 0..$n {
            for j in 0..$n {
                mi[i][j] = m[i][j];
                mq[i][j] = BigRational::from(BigInt::from(m[i][j]));
            }
        }
        $ctx.ops(3);
        match $ctx.guard(|| (mi.verif_determinant(), mq.verif_determinant(), mq.verif_inverse())) {
            Ok((d1, d2, inv)) => {
                if BigInt::from(d1) != d || d2 != BigRational::from(d.clone()) {
                    $ctx.violation("determinant", case.clone(), format!("Matrix determinant = {} / {}, expected {}", d1, d2, d), $weight);
                }
                match inv {
                    Some(x) => {
                        let ok = (0..$n).all(|i| {
                            (0..$n).all(|j| {
                                let mut s = BigRational::zero();
                                for k in 0..$n {
                                    s += &mq[i][k] * &x[k][j];
                                }
                                s == if i == j { BigRational::one() } else { BigRational::zero() }
                            })
                        });
                        if !ok {
                            $ctx.violation("inverse", case.clone(), "Matrix<BigRational>::inverse is not the inverse".into(), $weight);
                        }
                    }
                    None => {
                        if !d.is_zero() {
                            $ctx.violation("inverse", case.clone(), "Matrix<BigRational>::inverse is None for a non-singular matrix".into(), $weight);
                        }
                    }
                }
            }
            Err(msg) => $ctx.violation("panic:generic", case.clone(), msg, $weight),
        }
    }};
}

fn check_generic(ctx: &mut Ctx, m: &Mat, ncols: usize, weight: u64) {
    match (m.len(), ncols) {
        (1, 1) => {
            generic_shape!(ctx, m, 1, 1, weight);
            generic_square!(ctx, m, 1, weight);
        }
        (1, 2) => generic_shape!(ctx, m, 1, 2, weight),
        (1, 3) => generic_shape!(ctx, m, 1, 3, weight),
        (2, 1) => generic_shape!(ctx, m, 2, 1, weight),
        (2, 2) => {
            generic_shape!(ctx, m, 2, 2, weight);
            generic_square!(ctx, m, 2, weight);
        }
        (2, 3) => generic_shape!(ctx, m, 2, 3, weight),
        (3, 1) => generic_shape!(ctx, m, 3, 1, weight),
        (3, 2) => generic_shape!(ctx, m, 3, 2, weight),
        (3, 3) => {
            generic_shape!(ctx, m, 3, 3, weight);
            generic_square!(ctx, m, 3, weight);
        }
        (4, 4) => {
            generic_shape!(ctx, m, 4, 4, weight);
            generic_square!(ctx, m, 4, weight);
        }
        (3, 4) => generic_shape!(ctx, m, 3, 4, weight),
        (4, 3) => generic_shape!(ctx, m, 4, 3, weight),
        _ => {}
    }
}

// --- case drivers ------------------------------------------------------------------------

fn check_matrix_all(ctx: &mut Ctx, family: &str, m: &Mat, ncols: usize, with_rhs: bool, small_primes: bool, generic: bool) {
    let t0 = std::time::Instant::now();
    check_matrix_all_(ctx, family, m, ncols, with_rhs, small_primes, generic);
    ctx.add(&format!("cpu_ms_{}", family), t0.elapsed().as_micros() as i64);
}

fn check_matrix_all_(ctx: &mut Ctx, family: &str, m: &Mat, ncols: usize, with_rhs: bool, small_primes: bool, generic: bool) {
    let nrows = m.len();
    let case = json!({"family": family, "rows": m, "ncols": ncols});
    ctx.announce(&case);
    let weight = (nrows * ncols * 10) as u64 + m.iter().map(|r| r.iter().map(|x| x.unsigned_abs().min(9)).sum::<u64>()).sum::<u64>();
    let rank = rank_ref(&to_big(m), ncols, None);
    ctx.count(rank >= 1 && rank < nrows.max(ncols));
    if ctx.want_sample() && rank >= 1 && rank < nrows.min(ncols) {
        ctx.sample(case.clone());
    }
    let rhs = if with_rhs { all_rhs(nrows) } else { vec![vec![0; nrows], (1..=nrows as i64).collect()] };
    check_backend::<BI64>(ctx, family, m, ncols, &rhs, weight);
    check_backend::<BQ>(ctx, family, m, ncols, &rhs, weight);
    if small_primes {
        // the five small prime fields see every third right-hand side when there are 27
        let rhs: Vec<Vec<i64>> = if rhs.len() > 9 && !ctx.tier.is_thorough() { rhs.iter().cloned().step_by(3).collect() } else { rhs.clone() };
        check_backend::<BP<2>>(ctx, family, m, ncols, &rhs, weight);
        check_backend::<BP<3>>(ctx, family, m, ncols, &rhs, weight);
        check_backend::<BP<5>>(ctx, family, m, ncols, &rhs, weight);
        check_backend::<BP<7>>(ctx, family, m, ncols, &rhs, weight);
        check_backend::<BP<61>>(ctx, family, m, ncols, &rhs, weight);
    }
    check_backend::<BP<3037000493>>(ctx, family, m, ncols, &rhs[..rhs.len().min(3)], weight);
    if generic {
        check_generic(ctx, m, ncols, weight);
    }
}

fn for_each_matrix(nrows: usize, ncols: usize, vals: &[i64], f: &mut dyn FnMut(&Mat)) {
    let cells = nrows * ncols;
    let base = vals.len() as u64;
    let total = base.pow(cells as u32);
    for code in 0..total {
        let mut c = code;
        let mut m = vec![vec![0i64; ncols]; nrows];
        for r in 0..nrows {
            for k in 0..ncols {
                m[r][k] = vals[(c % base) as usize];
                c /= base;
            }
        }
        f(&m);
    }
}

fn sparse_rows(ncols: usize) -> Vec<Vec<i64>> {
    // rows over {-1,0,1} with at most 2 non-zero entries
    let mut out = vec![];
    let total = 3usize.pow(ncols as u32);
    for code in 0..total {
        let mut c = code;
        let row: Vec<i64> = (0..ncols)
            .map(|_| {
                let v = (c % 3) as i64 - 1;
                c /= 3;
                v
            })
            .collect();
        if row.iter().filter(|&&x| x != 0).count() <= 2 {
            out.push(row);
        }
    }
    out
}

// residues ------------------------------------------------------------------------------

fn residues_small<const P: i64>(ctx: &mut Ctx) {
    let case = json!({"family": "residues", "P": P});
    ctx.announce(&case);
    ctx.count(true);
    let r = ctx.guard(|| {
        type R<const Q: i64> = PrimeResidueClass<Q>;
        let val = |x: R<P>| -> i64 { x.into() };
        for n in (-3 * P)..=(3 * P) {
            let v = val(R::<P>::from(n));
            if v != n.rem_euclid(P) {
                return Some(format!("From<i64>({}) has value {}, expected {}", n, v, n.rem_euclid(P)));
            }
            let v = val(R::<P>::from(n as i32));
            if v != n.rem_euclid(P) {
                return Some(format!("From<i32>({}) has value {}, expected {}", n, v, n.rem_euclid(P)));
            }
            if (R::<P>::from(n) == R::<P>::zero()) != (n % P == 0) || R::<P>::from(n).is_zero() != (n % P == 0) {
                return Some(format!("zero test wrong for {}", n));
            }
        }
        for a in 0..P {
            let ra = R::<P>::from(a);
            if val(-&ra) != (-a).rem_euclid(P) || ra.is_one() != (a == 1) {
                return Some(format!("-&{} or is_one wrong", a));
            }
            if val(-ra) != (-a).rem_euclid(P) {
                return Some(format!("-{} = {}", a, val(-ra)));
            }
            if val(ra + R::<P>::zero()) != a || val(ra * R::<P>::one()) != a {
                return Some(format!("identity laws fail for {}", a));
            }
            for b in 0..P {
                let rb = R::<P>::from(b);
                if val(ra + rb) != (a + b) % P || val(ra - rb) != (a - b).rem_euclid(P) || val(ra * rb) != (a * b) % P {
                    return Some(format!("+,-,* wrong for {}, {}", a, b));
                }
                if val(&ra + &rb) != (a + b) % P || val(&ra - &rb) != (a - b).rem_euclid(P) || val(&ra * &rb) != (a * b) % P {
                    return Some(format!("reference +,-,* wrong for {}, {}", a, b));
                }
                // mixed operand forms (reference on the left, value on the right)
                if val(&ra + rb) != (a + b) % P || val(&ra - rb) != (a - b).rem_euclid(P) || val(&ra * rb) != (a * b) % P {
                    return Some(format!("mixed-form +,-,* wrong for {}, {}", a, b));
                }
                if b != 0 && val(&ra / rb) != val(ra / rb) {
                    return Some(format!("mixed-form / wrong for {}, {}", a, b));
                }
                if b != 0 {
                    let q = ra / rb;
                    if val(q * rb) != a || val(q) < 0 || val(q) >= P || val(&ra / &rb) != val(q) {
                        return Some(format!("{} / {} = {} but times {} is {}", a, b, val(q), b, val(q * rb)));
                    }
                }
                if P <= 7 {
                    for c in 0..P {
                        let rc = R::<P>::from(c);
                        if (ra + rb) + rc != ra + (rb + rc) || (ra * rb) * rc != ra * (rb * rc) || ra * (rb + rc) != ra * rb + ra * rc {
                            return Some(format!("associativity/distributivity fails for {}, {}, {}", a, b, c));
                        }
                    }
                }
            }
        }
        None
    });
    ctx.ops((P * P * 8) as u64);
    match r {
        Ok(None) => {}
        Ok(Some(why)) => ctx.violation("residues", case, why, P as u64),
        Err(m) => ctx.violation("panic:residues", case, m, P as u64),
    }
}

fn residues_large(ctx: &mut Ctx) {
    const P: i64 = 3_037_000_493;
    let case = json!({"family": "residues", "P": P});
    ctx.announce(&case);
    ctx.count(true);
    let r = ctx.guard(|| {
        type R = PrimeResidueClass<P>;
        let val = |x: R| -> i64 { x.into() };
        let pts: Vec<i64> = vec![0, 1, -1, 2, -2, P - 1, -(P - 1), P, -P, P + 1, -(P + 1), 2 * P, -2 * P, 2 * P + 1, -(2 * P) - 1, 1_000_000_007, -1_000_000_007, i64::MAX, i64::MIN, i64::MAX - 1, i64::MIN + 1, 3 * P, -3 * P];
        for &n in &pts {
            let v = val(R::from(n));
            if v != n.rem_euclid(P) {
                return Some(format!("From<i64>({}) has value {}, expected {}", n, v, n.rem_euclid(P)));
            }
        }
        for &n in &[0i32, 1, -1, i32::MAX, i32::MIN, 1_000_000_007, -1_000_000_007] {
            let v = val(R::from(n));
            if v != (n as i64).rem_euclid(P) {
                return Some(format!("From<i32>({}) has value {}, expected {}", n, v, (n as i64).rem_euclid(P)));
            }
        }
        for &a in &pts {
            for &b in &pts {
                let (ra, rb) = (R::from(a), R::from(b));
                let (x, y) = (a.rem_euclid(P) as i128, b.rem_euclid(P) as i128);
                let p = P as i128;
                if val(ra + rb) as i128 != (x + y) % p || val(ra - rb) as i128 != (x - y).rem_euclid(p) || val(ra * rb) as i128 != (x * y) % p {
                    return Some(format!("+,-,* wrong for {}, {}", a, b));
                }
                if y != 0 {
                    let q = ra / rb;
                    if val(q * rb) as i128 != x || val(q) < 0 || val(q) >= P {
                        return Some(format!("{} / {} * {} != {}", a, b, b, a));
                    }
                }
            }
        }
        None
    });
    ctx.ops(23 * 23 * 4);
    match r {
        Ok(None) => {}
        Ok(Some(why)) => ctx.violation("residues", case, why, 100),
        Err(m) => ctx.violation("panic:residues", case, m, 100),
    }
}

// p-adic solver --------------------------------------------------------------------------

fn padic_case(ctx: &mut Ctx, m: &Mat, rhs: &[Vec<i64>]) {
    let t0 = std::time::Instant::now();
    padic_case_(ctx, m, rhs);
    ctx.add("cpu_ms_padic", t0.elapsed().as_micros() as i64);
}

fn padic_case_(ctx: &mut Ctx, m: &Mat, rhs: &[Vec<i64>]) {
    let n = m.len();
    let case = json!({"family": "padic", "rows": m});
    ctx.announce(&case);
    let big = to_big(m);
    let d = det_big(&big);
    let p = BigInt::from(3_037_000_493i64);
    let nonsingular_mod_p = !(&d % &p).is_zero();
    ctx.count(!d.is_zero() && d.abs() != BigInt::one());
    let weight = (n * 10) as u64;
    let a = vm_i64(m, n);
    for b in rhs {
        ctx.ops(1);
        let scase = json!({"family": "padic", "rows": m, "rhs": b});
        let bm: Mat = b.iter().map(|&x| vec![x]).collect();
        let bv = vm_i64(&bm, 1);
        match ctx.guard(|| modular_solver::solve(&a, &bv)) {
            Ok(Some(x)) => {
                if !nonsingular_mod_p {
                    // not covered by the statement; nothing demanded
                    continue;
                }
                // Cramer
                let xs = q_rows(&x);
                let mut ok = xs.len() == n && xs.iter().all(|r| r.len() == 1);
                if ok {
                    for j in 0..n {
                        let mut mj = big.clone();
                        for i in 0..n {
                            mj[i][j] = BigInt::from(b[i]);
                        }
                        let exp = BigRational::new(det_big(&mj), d.clone());
                        if xs[j][0] != exp {
                            ok = false;
                        }
                    }
                }
                if !ok {
                    ctx.violation("padic-wrong", scase, format!("modular solver returned {:?}, Cramer's rule disagrees", xs), weight);
                    return;
                }
            }
            Ok(None) => {
                if nonsingular_mod_p {
                    ctx.violation("padic-missed", scase, "modular solver returned None for a system that is non-singular modulo its prime".into(), weight);
                    return;
                }
            }
            Err(msg) => {
                if nonsingular_mod_p {
                    ctx.violation("panic:padic", scase, msg, weight);
                    return;
                }
            }
        }
    }
}

/// the p-adic solver with a right-hand side of SEVERAL columns at once (the number of lifting steps is
/// derived from the whole right-hand side, so columns of very different size must not disturb each other);
/// every column of the answer is compared with Cramer's rule
fn padic_multi(ctx: &mut Ctx, m: &Mat, cols: &[Vec<i64>]) {
    let n = m.len();
    let big = to_big(m);
    let d = det_big(&big);
    let p = BigInt::from(3_037_000_493i64);
    if (&d % &p).is_zero() {
        return; // singular modulo the prime: outside the statement
    }
    let bm: Mat = (0..n).map(|i| cols.iter().map(|c| c[i]).collect()).collect();
    let scase = json!({"family": "padic-multi", "rows": m, "rhs_columns": cols});
    ctx.announce(&scase);
    ctx.count(true);
    ctx.ops(1);
    let weight = (n * 10 + cols.len()) as u64;
    let a = vm_i64(m, n);
    let bv = vm_i64(&bm, cols.len());
    match ctx.guard(|| modular_solver::solve(&a, &bv)) {
        Ok(Some(x)) => {
            let xs = q_rows(&x);
            let mut ok = xs.len() == n && xs.iter().all(|r| r.len() == cols.len());
            if ok {
                'outer: for (k, b) in cols.iter().enumerate() {
                    for j in 0..n {
                        let mut mj = big.clone();
                        for i in 0..n {
                            mj[i][j] = BigInt::from(b[i]);
                        }
                        if xs[j][k] != BigRational::new(det_big(&mj), d.clone()) {
                            ok = false;
                            break 'outer;
                        }
                    }
                }
            }
            if !ok {
                ctx.violation("padic-wrong", scase, format!("modular solver returned {:?}, Cramer's rule disagrees", xs), weight);
            }
        }
        Ok(None) => ctx.violation("padic-missed", scase, "modular solver returned None for a system that is non-singular modulo its prime".into(), weight),
        Err(msg) => ctx.violation("panic:padic", scase, msg, weight),
    }
}

/// right-hand sides of several columns built from a zero, a small and two large columns, in every order of every
/// non-empty subset of <= 3 of them
fn multi_rhs(n: usize) -> Vec<Vec<Vec<i64>>> {
    let basis: Vec<Vec<i64>> = vec![
        vec![0; n],
        (0..n as i64).map(|k| 1 - k).collect(),
        (0..n as i64).map(|k| 100_000 + 7 * k).collect(),
        (0..n as i64).map(|k| if k % 2 == 0 { 1_000_000_000 } else { -999_999_937 }).collect(),
    ];
    let mut out = vec![];
    for a in 0..basis.len() {
        for b in 0..basis.len() {
            if a != b {
                out.push(vec![basis[a].clone(), basis[b].clone()]);
                for c in 0..basis.len() {
                    if c != a && c != b {
                        out.push(vec![basis[a].clone(), basis[b].clone(), basis[c].clone()]);
                    }
                }
            }
        }
    }
    out
}

// unimodular walk to larger shapes --------------------------------------------------------

fn walk_shapes(ctx: &mut Ctx, depth: usize) {
    use std::collections::{HashSet, VecDeque};
    let shapes = [(4usize, 4usize), (5, 5), (6, 6), (4, 6), (6, 4), (2, 5), (5, 2)];
    let seeds: Vec<Vec<i64>> = vec![vec![1, 2, 3, 0, 5, 1], vec![1, 1, 1, 1, 1, 1], vec![2, 0, 0, 3, 0, 1], vec![0, 0, 0, 0, 0, 0], vec![3, -2, 1, 4, -1, 2]];
    for &(r, c) in &shapes {
        for sd in &seeds {
            if !ctx.take() {
                continue;
            }
            let mut seed = vec![vec![0i64; c]; r];
            for k in 0..r.min(c) {
                seed[k][k] = sd[k];
            }
            // a restricted operation menu keeps the frontier small: add/subtract neighbouring rows/columns, one swap, one negation
            let mut ops: Vec<(u8, usize, usize, i64)> = vec![];
            for i in 0..r {
                let j = (i + 1) % r;
                if i != j {
                    ops.push((0, i, j, 1));
                    ops.push((0, j, i, -2));
                }
            }
            for i in 0..c {
                let j = (i + 1) % c;
                if i != j {
                    ops.push((1, i, j, 1));
                    ops.push((1, j, i, -1));
                }
            }
            ops.push((2, 0, r - 1, 0));
            ops.push((3, 0, c - 1, 0));
            ops.push((4, 0, 0, 0));
            let mut seen: HashSet<Mat> = HashSet::new();
            seen.insert(seed.clone());
            let mut frontier = VecDeque::from([(seed, 0usize)]);
            while let Some((m, d)) = frontier.pop_front() {
                check_matrix_all(ctx, "walk", &m, c, false, false, false);
                ctx.transitions += ops.len() as u64;
                if d < depth {
                    for &(kind, i, j, cf) in &ops {
                        let mut a = m.clone();
                        match kind {
                            0 => {
                                for k in 0..c {
                                    a[i][k] += cf * m[j][k];
                                }
                            }
                            1 => {
                                for rr in 0..r {
                                    a[rr][i] += cf * m[rr][j];
                                }
                            }
                            2 => a.swap(i, j),
                            3 => {
                                for rr in 0..r {
                                    a[rr].swap(i, j);
                                }
                            }
                            _ => {
                                for k in 0..c {
                                    a[i][k] = -a[i][k];
                                }
                            }
                        }
                        if seen.insert(a.clone()) {
                            frontier.push_back((a, d + 1));
                        }
                    }
                }
            }
        }
    }
}

fn run(ctx: &mut Ctx) {
    let tier = ctx.tier;
    // family small
    for r in 1..=3usize {
        for c in 1..=3usize {
            let vals: Vec<i64> = if r == 3 && c == 3 && !tier.is_thorough() { vec![-1, 0, 1] } else { vec![-2, -1, 0, 1, 2] };
            for_each_matrix(r, c, &vals, &mut |m| {
                if ctx.take() {
                    check_matrix_all(ctx, "small", m, c, true, true, true);
                }
            });
        }
    }
    // degenerate shapes: empty-ish right-hand sides are not constructible; 1 x n and n x 1 are covered above
    // family four: rows with <= 2 non-zero entries +-1
    for (r, c) in [(4usize, 4usize), (3, 4), (4, 3)] {
        let rows = sparse_rows(c);
        let total = rows.len().pow(r as u32);
        // 4 x 4: every combination at the thorough tier, every 7th at the quick tier is NOT exhaustive - instead restrict the
        // quick tier to matrices whose rows are sorted (row order only changes the determinant's sign and pivoting), still exhaustive in that class
        for code in 0..total {
            let mut cc = code;
            let idx: Vec<usize> = (0..r)
                .map(|_| {
                    let v = cc % rows.len();
                    cc /= rows.len();
                    v
                })
                .collect();
            let sorted = idx.windows(2).all(|p| p[0] <= p[1]);
            if !tier.is_thorough() && !sorted {
                continue;
            }
            if ctx.take() {
                let m: Mat = idx.iter().map(|&k| rows[k].clone()).collect();
                check_matrix_all(ctx, "four", &m, c, false, false, true);
            }
        }
    }
    // family big
    let big_vals = [0i64, 1, -1, 1_000_000_000, -999_999_937];
    for n in 2..=3usize {
        for_each_matrix(n, n, &big_vals, &mut |m| {
            if n == 3 && !tier.is_thorough() && m[..2].iter().any(|r| r.iter().any(|&x| x == 0 || x == -1)) {
                return; // quick tier: first two rows over {1, 10^9, -999999937}, last row over the full alphabet
            }
            if ctx.take() {
                let case = json!({"family": "big", "rows": m});
                ctx.announce(&case);
                ctx.count(true);
                let rhs = vec![vec![1; n], (0..n as i64).map(|k| 1_000_000_000 - k).collect()];
                check_backend::<BQ>(ctx, "big", m, n, &rhs, 50);
                padic_case(ctx, m, &rhs);
            }
        });
    }
    // family big-i64: machine integers with entries up to 10^9 in size on the shapes whose exact results stay far
    // inside i64 whatever the pivoting (one row, one column, 2 x 2): a pivot search or gcd step that squares or
    // multiplies entries needlessly overflows here although every answer is representable
    {
        let vals: Vec<i64> = vec![0, 1, -1, 2, 46_341, -65_537, 1_000_000, 999_999_937, -1_000_000_000];
        for n in 1..=tier.pick(4usize, 5usize) {
            for_each_matrix(1, n, &vals, &mut |m| {
                if ctx.take() {
                    ctx.count(true);
                    let col: Mat = m[0].iter().map(|&x| vec![x]).collect();
                    check_i64_big(ctx, "big-i64", m, n, &[vec![1], vec![999_999_937]], 60);
                    let rhs_col: Vec<Vec<i64>> = vec![vec![0; n], (0..n as i64).map(|k| 1 - k).collect()];
                    check_i64_big(ctx, "big-i64", &col, 1, &rhs_col, 60);
                }
            });
        }
        for_each_matrix(2, 2, &vals, &mut |m| {
            if ctx.take() {
                ctx.count(true);
                check_i64_big(ctx, "big-i64", m, 2, &[vec![1, 1], vec![0, -1_000_000_000]], 70);
            }
        });
        // exactly one huge entry (beyond 2^31.5, up to 2^61) among entries of size <= 2: no product of two entries
        // of the input exceeds i64, so nothing the routines need to compute does
        let small: Vec<i64> = vec![0, 1, -1, 2];
        let huge: Vec<i64> = vec![3_037_000_500, -5_000_000_000, 1 << 40, -(1 << 61)];
        for (r, c) in [(1usize, 2usize), (2, 1), (1, 3), (3, 1), (2, 2)] {
            for_each_matrix(r, c, &small, &mut |m| {
                if !ctx.take() {
                    return;
                }
                for pos in 0..r * c {
                    for &h in &huge {
                        let mut mm = m.clone();
                        mm[pos / c][pos % c] = h;
                        ctx.count(true);
                        let rhs: Vec<Vec<i64>> = vec![vec![1; r], (0..r as i64).map(|k| k - 1).collect()];
                        check_i64_big(ctx, "huge-i64", &mm, c, &rhs, 80);
                        if ctx.nviolations() > 0 {
                            return;
                        }
                    }
                }
            });
        }
    }
    // family padic
    let e2 = tier.pick(3, 4);
    let vals2: Vec<i64> = (-e2..=e2).collect();
    let multi2 = multi_rhs(2);
    for_each_matrix(2, 2, &vals2, &mut |m| {
        if ctx.take() {
            padic_case(ctx, m, &all_rhs(2));
            for cols in &multi2 {
                padic_multi(ctx, m, cols);
            }
        }
    });
    let multi1 = multi_rhs(1);
    let multi3 = multi_rhs(3);
    let rhs3: Vec<Vec<i64>> = if tier.is_thorough() { all_rhs(3) } else { vec![vec![1, 1, 1], vec![1, 0, -1], vec![0, 1, 0]] };
    for_each_matrix(3, 3, &[-1, 0, 1], &mut |m| {
        if ctx.take() {
            padic_case(ctx, m, &rhs3);
            for cols in multi3.iter().take(tier.pick(6, usize::MAX)) {
                padic_multi(ctx, m, cols);
            }
        }
    });
    for_each_matrix(1, 1, &[-3, -2, -1, 0, 1, 2, 3, 1_000_000_007, 3_037_000_493, -3_037_000_493, 6_074_000_986], &mut |m| {
        if ctx.take() {
            padic_case(ctx, m, &[vec![1], vec![0], vec![-7], vec![3_037_000_493]]);
            for cols in &multi1 {
                padic_multi(ctx, m, cols);
            }
        }
    });
    // family residues
    if ctx.take() {
        residues_small::<2>(ctx);
        residues_small::<3>(ctx);
        residues_small::<5>(ctx);
    }
    if ctx.take() {
        residues_small::<7>(ctx);
    }
    if ctx.take() {
        residues_small::<61>(ctx);
    }
    if ctx.take() {
        residues_large(ctx);
    }
    walk_shapes(ctx, tier.pick(2, 3));
    // LAST (a recorded finding must not cut other families short): dense machine-integer matrices on which the
    // Bezout-coefficient elimination of the i64 backend overflows although every exact answer is tiny, and the
    // p-adic solver with a right-hand side without columns
    if ctx.take() {
        let m4: Mat = vec![vec![-900, -269, -842, -9], vec![-578, 853, -780, 672], vec![789, 70, -785, -667], vec![-1367, 783, 5, 1339]];
        check_i64_big(ctx, "dense-i64", &m4, 4, &[], 4000);
    }
    if ctx.take() {
        let m7: Mat = vec![vec![1, -4, 6, -3, 8, -4, -1], vec![7, 4, 2, 1, -4, 2, 3], vec![-4, 0, -2, -5, 0, -1, 6], vec![-3, -2, 4, -4, 1, 3, 7], vec![-8, 5, -9, -9, 3, 9, 9], vec![-7, -2, 9, 1, 4, 3, -5], vec![11, 4, 4, 6, -4, 3, -3]];
        check_i64_big(ctx, "dense-i64", &m7, 7, &[vec![-8, -16, -14, -7, 15, 24, -2]], 7000);
    }
    if ctx.take() {
        // no right-hand side at all: the solution is the n x 0 matrix
        let case = json!({"family": "padic-empty-rhs", "rows": [[1, 0], [0, 1]]});
        ctx.announce(&case);
        ctx.count(true);
        ctx.ops(1);
        let a = vm_i64(&vec![vec![1, 0], vec![0, 1]], 2);
        let b = VecMatrix::<i64>::new(2, 0);
        match ctx.guard(|| modular_solver::solve(&a, &b)) {
            Ok(Some(x)) => {
                if x.nr_rows() != 2 || x.nr_columns() != 0 {
                    ctx.violation("padic-wrong", case, format!("solution has shape {} x {}, expected 2 x 0", x.nr_rows(), x.nr_columns()), 20);
                }
            }
            Ok(None) => ctx.violation("padic-missed", case, "modular solver returned None for the identity matrix".into(), 20),
            Err(msg) => ctx.violation("panic:padic", case, msg, 20),
        }
    }
}

fn replay(ctx: &mut Ctx, case: &Value) {
    let m: Mat = case["rows"].as_array().map(|a| a.iter().map(|r| r.as_array().map(|x| x.iter().map(|v| v.as_i64().unwrap_or(0)).collect()).unwrap_or_default()).collect()).unwrap_or_default();
    match case["family"].as_str() {
        Some("residues") => {
            residues_small::<2>(ctx);
            residues_small::<3>(ctx);
            residues_small::<5>(ctx);
            residues_small::<7>(ctx);
            residues_small::<61>(ctx);
            residues_large(ctx);
        }
        Some("padic") => {
            let n = m.len();
            let rhs: Vec<Vec<i64>> = match case["rhs"].as_array() {
                Some(b) => vec![b.iter().map(|v| v.as_i64().unwrap_or(0)).collect()],
                None => all_rhs(n),
            };
            padic_case(ctx, &m, &rhs);
        }
        _ => {
            let ncols = case["ncols"].as_u64().map(|x| x as usize).unwrap_or_else(|| m.first().map(|r| r.len()).unwrap_or(0));
            check_matrix_all(ctx, "replay", &m, ncols, true, true, true);
            if m.len() == ncols {
                let rhs = vec![vec![1; ncols], (0..ncols as i64).map(|k| 1_000_000_000 - k).collect()];
                padic_case(ctx, &m, &rhs);
            }
        }
    }
}
