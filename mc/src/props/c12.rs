//! C12 — low-index enumeration lists each subgroup conjugacy class exactly once.

use crate::engine::*;
use crate::props::c11::{check_action, table_to_action};
use crate::refmodel::groups::*;
use rust_dsymbols::fpgroups::cosets::coset_tables;
use rust_dsymbols::fpgroups::free_words::FreeWord;
use rust_dsymbols::fundamental_group::fundamental_group;
use rust_dsymbols::generators::dset_generators::DSets;
use rust_dsymbols::generators::dsym_generators::{DSyms, Geometries};
use serde_json::{json, Value};
use std::collections::BTreeSet;

pub fn spec() -> Spec {
    Spec {
        id: "C12",
        run,
        replay,
        nshards: |_| 16,
        case_cap_s: |t| t.pick(300, 3600),
        rule: "one case per (presentation, index bound k); every k' <= k is run separately. Families: named finite and infinite groups (free, free abelian, surface, triangle, Coxeter); 'exhaustive' = every presentation with <= R relators among the rotation/inversion classes of cyclically reduced words of length <= L on 2 and 3 generators, including the empty presentation and length-1 relators; 'dsym' = crate presentations of the fundamental groups of all DSyms outputs over DSets(2, <= N). Oracle: number of tables per row count = (1/n!) * sum over transitive homomorphisms G -> S_n of |Aut| (validated against the published counts for F2, Z^2, Z^3); each table complete, <= k rows, transitive, mutually inverse columns, every relator closes at every row; tables pairwise inequivalent as actions (minimum BFS renumbering over all base points). Non-trivial = the group has a proper subgroup of index <= k.",
        assumptions: &["family 'dsym' takes presentations from fundamental_group as a supply of inputs only"],
        bounds: |t| json!({"k_for_2_generators": t.pick(5, 6), "k_for_3_generators": t.pick(4, 5), "k_for_4_generators": t.pick(3, 4), "k_for_1_generator": 8,
            "exhaustive_2gens": {"relator_len": t.pick(4, 5), "max_relators": 3, "k": t.pick(5, 6)}, "exhaustive_3gens": {"relator_len": 3, "max_relators": t.pick(3, 4), "k": t.pick(4, 5)},
            "dsym_dsets_max_size": t.pick(6, 7), "dsym_index": t.pick(4, 5)}),
    }
}

fn fw(w: &[isize]) -> FreeWord {
    FreeWord::from(w.to_vec())
}

pub fn check_case(ctx: &mut Ctx, family: &str, ng: usize, rels: &[Word], k: usize) {
    let case = json!({"family": family, "ng": ng, "rels": rels, "k": k});
    ctx.announce(&case);
    let weight = (rels.iter().map(|r| r.len()).sum::<usize>() + 3 * k + 20 * ng) as u64;
    let expected: Vec<usize> = (0..=k).map(|n| if n == 0 { 0 } else { count_classes(ng, rels, n) }).collect();
    ctx.count(expected.iter().skip(2).any(|&c| c > 0));
    if ctx.want_sample() && expected.iter().skip(2).sum::<usize>() >= 3 {
        ctx.sample(json!({"case": case, "classes_per_index": &expected[1..]}));
    }
    let rels_fw: Vec<FreeWord> = rels.iter().map(|r| fw(r)).collect();
    for kk in 1..=k {
        ctx.ops(1);
        let tables = match ctx.guard(|| coset_tables(ng, &rels_fw, kk).collect::<Vec<_>>()) {
            Ok(t) => t,
            Err(m) => {
                ctx.violation("panic:coset_tables", json!({"family": family, "ng": ng, "rels": rels, "k": kk}), m, weight);
                return;
            }
        };
        let case_k = json!({"family": family, "ng": ng, "rels": rels, "k": kk});
        let mut by = vec![0usize; kk + 1];
        let mut forms = BTreeSet::new();
        for t in &tables {
            if t.len() < 1 || t.len() > kk {
                ctx.violation("too-many-rows", case_k.clone(), format!("a table has {} rows, bound is {}", t.len(), kk), weight);
                return;
            }
            let a = match table_to_action(t, ng) {
                Ok(a) => a,
                Err(e) => {
                    ctx.violation("incomplete-table", case_k.clone(), e, weight);
                    return;
                }
            };
            if let Some(why) = check_action(&a, rels, &[]) {
                ctx.violation("invalid-table", case_k.clone(), why, weight);
                return;
            }
            by[a.len()] += 1;
            if !forms.insert(a.canonical_code()) {
                ctx.violation("duplicate-class", case_k.clone(), format!("two of the {} tables are equivalent as actions ({} rows)", tables.len(), a.len()), weight);
                return;
            }
        }
        if by[1..] != expected[1..=kk] {
            ctx.violation("class-count", case_k, format!("tables per row count {:?}, classes per index {:?}", &by[1..], &expected[1..=kk]), weight);
            return;
        }
    }
}

fn k_for(ng: usize, tier: Tier) -> usize {
    match ng {
        0 | 1 => 8,
        2 => tier.pick(5, 6),
        3 => tier.pick(4, 5),
        _ => tier.pick(3, 4),
    }
}

fn run(ctx: &mut Ctx) {
    let tier = ctx.tier;
    validate_class_counter();
    for g in infinite_groups().into_iter().chain(finite_groups().into_iter()) {
        if ctx.take() {
            check_case(ctx, "named", g.ng, &g.rels, k_for(g.ng, tier));
        }
    }
    for (ng, rel_len, max_rels) in [(2usize, tier.pick(4, 5), 3usize), (3, 3, tier.pick(3, 4))] {
        let classes = cyc_reduced_words(ng, rel_len);
        for p in presentations(&classes, max_rels, true) {
            if ctx.take() {
                let k = if ng == 2 { tier.pick(5, 6) } else { tier.pick(4, 5) };
                check_case(ctx, "exhaustive", ng, &p, k);
            }
        }
    }
    // one generator: every <a | a^n>
    for n in 0..=12usize {
        if ctx.take() {
            let rels: Vec<Word> = if n == 0 { vec![] } else { vec![vec![1; n]] };
            check_case(ctx, "cyclic", 1, &rels, 8);
        }
    }
    // fundamental groups of D-symbols
    let sets: Vec<_> = ctx.supply("DSets::new", || DSets::new(2, tier.pick(6, 7)).collect::<Vec<_>>());
    for ds in sets {
        if !ctx.take() {
            continue;
        }
        let syms = ctx.supply("DSyms::new", || DSyms::new(&ds, Geometries::All).collect::<Vec<_>>());
        for sy in syms {
            if let Some(fg) = ctx.supply("fundamental_group", || Some(fundamental_group(&sy))) {
                let ng = fg.nr_generators();
                let rels: Vec<Word> = fg.relators.iter().map(|w| w.iter().cloned().collect::<Word>()).filter(|w| !w.is_empty()).collect();
                if ng >= 1 && ng <= 4 {
                    check_case(ctx, "dsym", ng, &rels, tier.pick(4, 5).min(k_for(ng, tier)));
                }
            }
        }
    }
}

fn replay(ctx: &mut Ctx, case: &Value) {
    let ng = case["ng"].as_u64().unwrap_or(2) as usize;
    let rels: Vec<Word> = case["rels"].as_array().map(|a| a.iter().map(|w| crate::util::isize_list(w)).collect()).unwrap_or_default();
    check_case(ctx, case["family"].as_str().unwrap_or("replay"), ng, &rels, case["k"].as_u64().unwrap_or(3) as usize);
}
