//! C12 — low-index enumeration lists each subgroup conjugacy class exactly once.

use crate::engine::*;
use crate::props::c11::{check_action, table_to_action};
use crate::refmodel::groups::*;
use rust_dsymbols::fpgroups::cosets::coset_tables;
use rust_dsymbols::fpgroups::free_words::FreeWord;
use rust_dsymbols::fundamental_group::fundamental_group;
use rust_dsymbols::generators::dset_generators::DSets;
use rust_dsymbols::generators::dsym_generators::{DSyms, Geometries};
use serde_json::{json, Value};
use std::collections::BTreeSet;

pub fn spec() -> Spec {
    Spec {
        id: "C12",
        run,
        replay,
        nshards: |_| 16,
        case_cap_s: |t| t.pick(300, 3600),
        rule: "one case per (presentation, index bound k); every k' <= k is run separately. Families: named finite and infinite groups (free, free abelian, surface, triangle, Coxeter); 'exhaustive' = every presentation with <= R relators among the rotation/inversion classes of cyclically reduced words of length <= L on 2 and 3 generators, including the empty presentation and length-1 relators; 'written-forms' = EVERY cyclically reduced word of length <= 5 [6] (2 generators) / 3 [4] (3 generators), not one per rotation class, as the single relator and next to a second relator of length <= 2; 'dsym' = crate presentations of the fundamental groups of all DSyms outputs over DSets(2, <= N). Oracle: number of tables per row count = (1/n!) * sum over transitive homomorphisms G -> S_n of |Aut| (validated against the published counts for F2, Z^2, Z^3); each table complete, <= k rows, transitive, mutually inverse columns, every relator closes at every row; tables pairwise inequivalent as actions (minimum BFS renumbering over all base points). Non-trivial = the group has a proper subgroup of index <= k.",
        assumptions: &["family 'dsym' takes presentations from fundamental_group as a supply of inputs only"],
        bounds: |t| json!({"k_for_2_generators": t.pick(5, 6), "k_for_3_generators": t.pick(4, 5), "k_for_4_generators": t.pick(3, 4), "k_for_1_generator": 8,
            "exhaustive_2gens": {"relator_len": t.pick(4, 5), "max_relators": 3, "k": t.pick(5, 6)}, "exhaustive_3gens": {"relator_len": 3, "max_relators": t.pick(3, 4), "k": t.pick(4, 5)},
            "dsym_dsets_max_size": t.pick(6, 7), "dsym_index": t.pick(4, 5), "deep_family": "24 named infinite and finite groups (triangle groups, PSL(2,Z), F2, Z^2, Z^3, Klein bottle, BS(1,2), B3, Heisenberg, free products, surface group, [4,3,4], ...) against the reference backtracking search at index 4-16 [6-18] depending on the group"}),
    }
}

fn fw(w: &[isize]) -> FreeWord {
    FreeWord::from(w.to_vec())
}

pub fn check_case(ctx: &mut Ctx, family: &str, ng: usize, rels: &[Word], k: usize) {
    let case = json!({"family": family, "ng": ng, "rels": rels, "k": k});
    ctx.announce(&case);
    let weight = (rels.iter().map(|r| r.len()).sum::<usize>() + 3 * k + 20 * ng) as u64;
    let expected: Vec<usize> = (0..=k).map(|n| if n == 0 { 0 } else { count_classes(ng, rels, n) }).collect();
    ctx.count(expected.iter().skip(2).any(|&c| c > 0));
    if ctx.want_sample() && expected.iter().skip(2).sum::<usize>() >= 3 {
        ctx.sample(json!({"case": case, "classes_per_index": &expected[1..]}));
    }
    let rels_fw: Vec<FreeWord> = rels.iter().map(|r| fw(r)).collect();
    for kk in 1..=k {
        ctx.ops(1);
        let tables = match ctx.guard(|| coset_tables(ng, &rels_fw, kk).collect::<Vec<_>>()) {
            Ok(t) => t,
            Err(m) => {
                ctx.violation("panic:coset_tables", json!({"family": family, "ng": ng, "rels": rels, "k": kk}), m, weight);
                return;
            }
        };
        let case_k = json!({"family": family, "ng": ng, "rels": rels, "k": kk});
        let mut by = vec![0usize; kk + 1];
        let mut forms = BTreeSet::new();
        for t in &tables {
            if t.len() < 1 || t.len() > kk {
                ctx.violation("too-many-rows", case_k.clone(), format!("a table has {} rows, bound is {}", t.len(), kk), weight);
                return;
            }
            let a = match table_to_action(t, ng) {
                Ok(a) => a,
                Err(e) => {
                    ctx.violation("incomplete-table", case_k.clone(), e, weight);
                    return;
                }
            };
            if let Some(why) = check_action(&a, rels, &[]) {
                ctx.violation("invalid-table", case_k.clone(), why, weight);
                return;
            }
            by[a.len()] += 1;
            if !forms.insert(a.canonical_code()) {
                ctx.violation("duplicate-class", case_k.clone(), format!("two of the {} tables are equivalent as actions ({} rows)", tables.len(), a.len()), weight);
                return;
            }
        }
        if by[1..] != expected[1..=kk] {
            ctx.violation("class-count", case_k, format!("tables per row count {:?}, classes per index {:?}", &by[1..], &expected[1..=kk]), weight);
            return;
        }
    }
}

/// deep family: the crate's list against the independent backtracking reference (R5b) at indices the
/// homomorphism counter cannot reach; the two lists must be the same set of actions up to equivalence
fn check_deep(ctx: &mut Ctx, name: &str, ng: usize, rels: &[Word], k: usize) {
    let case = json!({"family": "deep", "group": name, "ng": ng, "rels": rels, "k": k});
    ctx.announce(&case);
    let weight = 1000 + (ng * 10 + k) as u64;
    let reference = match low_index_ref(ng, rels, k, 30_000_000) {
        Some(r) => r,
        None => {
            ctx.add("deep_reference_gave_up", 1);
            return;
        }
    };
    ctx.count(reference.len() >= 2);
    ctx.ops(1);
    let rels_fw: Vec<FreeWord> = rels.iter().map(|r| fw(r)).collect();
    let tables = match ctx.guard(|| coset_tables(ng, &rels_fw, k).collect::<Vec<_>>()) {
        Ok(t) => t,
        Err(m) => {
            ctx.violation("panic:coset_tables", case, m, weight);
            return;
        }
    };
    let mut forms: BTreeSet<Vec<usize>> = BTreeSet::new();
    for t in &tables {
        if t.len() < 1 || t.len() > k {
            ctx.violation("too-many-rows", case.clone(), format!("a table has {} rows, bound is {}", t.len(), k), weight);
            return;
        }
        let a = match table_to_action(t, ng) {
            Ok(a) => a,
            Err(e) => {
                ctx.violation("incomplete-table", case.clone(), e, weight);
                return;
            }
        };
        if let Some(why) = check_action(&a, rels, &[]) {
            ctx.violation("invalid-table", case.clone(), why, weight);
            return;
        }
        if !forms.insert(a.canonical_code()) {
            ctx.violation("duplicate-class", case.clone(), format!("two of the {} tables are equivalent as actions ({} rows)", tables.len(), a.len()), weight);
            return;
        }
    }
    let exp: BTreeSet<Vec<usize>> = reference.iter().map(|a| a.canonical_code()).collect();
    ctx.add("deep_classes_compared", exp.len() as i64);
    ctx.max("deep_largest_list", exp.len() as i64);
    if forms != exp {
        let missing = exp.difference(&forms).count();
        let extra = forms.difference(&exp).count();
        let per = |set: &BTreeSet<Vec<usize>>| -> Vec<usize> {
            let mut by = vec![0usize; k + 1];
            for c in set {
                by[c.len() / (2 * ng)] += 1;
            }
            by[1..].to_vec()
        };
        ctx.violation("class-count", case, format!("tables per row count {:?}, classes per index {:?} (reference backtracking search); {} classes missing, {} tables not in the reference", per(&forms), per(&exp), missing, extra), weight);
    }
}

fn deep_groups(tier: Tier) -> Vec<(&'static str, usize, Vec<Word>, usize)> {
    let c = |a: isize, b: isize| -> Word { vec![a, b, -a, -b] };
    let pw = |w: &[isize], n: usize| -> Word { (0..n).flat_map(|_| w.iter().cloned()).collect() };
    let t = |_q: usize, th: usize| tier.pick(th, th + 2);
    vec![
        ("(2,3,7) rotations", 2, vec![pw(&[1], 2), pw(&[2], 3), pw(&[1, 2], 7)], t(10, 15)),
        ("(3,6,4) rotations", 2, vec![pw(&[1], 3), pw(&[2], 6), pw(&[1, 2], 4)], t(7, 9)),
        ("(2,4,5) rotations", 2, vec![pw(&[1], 2), pw(&[2], 4), pw(&[1, 2], 5)], t(8, 11)),
        ("(3,3,4) rotations", 2, vec![pw(&[1], 3), pw(&[2], 3), pw(&[1, 2], 4)], t(8, 10)),
        ("(2,3,6) rotations", 2, vec![pw(&[1], 2), pw(&[2], 3), pw(&[1, 2], 6)], t(9, 12)),
        ("(2,3,7) reflections", 3, vec![pw(&[1], 2), pw(&[2], 2), pw(&[3], 2), pw(&[1, 2], 2), pw(&[2, 3], 3), pw(&[1, 3], 7)], t(9, 14)),
        ("(2,4,4) reflections", 3, vec![pw(&[1], 2), pw(&[2], 2), pw(&[3], 2), pw(&[1, 2], 2), pw(&[2, 3], 4), pw(&[1, 3], 4)], t(7, 9)),
        ("(3,3,3) reflections", 3, vec![pw(&[1], 2), pw(&[2], 2), pw(&[3], 2), pw(&[1, 2], 3), pw(&[2, 3], 3), pw(&[1, 3], 3)], t(8, 10)),
        ("(2,3,6) reflections", 3, vec![pw(&[1], 2), pw(&[2], 2), pw(&[3], 2), pw(&[1, 2], 2), pw(&[2, 3], 3), pw(&[1, 3], 6)], t(8, 10)),
        ("PSL(2,Z)", 2, vec![pw(&[1], 2), pw(&[2], 3)], t(10, 12)),
        ("F2", 2, vec![], t(5, 6)),
        ("Z^2", 2, vec![c(1, 2)], t(10, 16)),
        ("Z^3", 3, vec![c(1, 2), c(1, 3), c(2, 3)], t(6, 8)),
        ("Klein bottle", 2, vec![vec![1, 2, 1, -2]], t(8, 11)),
        ("BS(1,2)", 2, vec![vec![2, 1, -2, -1, -1]], t(8, 11)),
        ("braid B3", 2, vec![vec![1, 2, 1, -2, -1, -2]], t(7, 9)),
        ("Heisenberg", 2, vec![vec![1, 1, 2, -1, -2, -1, 2, 1, -2, -1], vec![2, 1, 2, -1, -2, -2, 2, 1, -2, -1]], t(6, 8)),
        ("Z2*Z2*Z2", 3, vec![pw(&[1], 2), pw(&[2], 2), pw(&[3], 2)], t(6, 7)),
        ("Z3*Z3", 2, vec![pw(&[1], 3), pw(&[2], 3)], t(7, 9)),
        ("Z2*Z4", 2, vec![pw(&[1], 2), pw(&[2], 4)], t(7, 9)),
        ("genus-2 surface", 4, vec![vec![1, 2, -1, -2, 3, 4, -3, -4]], t(3, 4)),
        ("[4,3,4] (cubic reflections)", 4, vec![pw(&[1], 2), pw(&[2], 2), pw(&[3], 2), pw(&[4], 2), pw(&[1, 2], 4), pw(&[2, 3], 3), pw(&[3, 4], 4), pw(&[1, 3], 2), pw(&[1, 4], 2), pw(&[2, 4], 2)], t(4, 6)),
        ("Z^2 x Z2", 3, vec![c(1, 2), c(1, 3), c(2, 3), pw(&[3], 2)], t(6, 8)),
        ("Z x S3", 3, vec![pw(&[2], 2), pw(&[3], 2), pw(&[2, 3], 3), c(1, 2), c(1, 3)], t(6, 8)),
    ]
}

fn k_for(ng: usize, tier: Tier) -> usize {
    match ng {
        0 | 1 => 8,
        2 => tier.pick(5, 6),
        3 => tier.pick(4, 5),
        _ => tier.pick(3, 4),
    }
}

fn run(ctx: &mut Ctx) {
    let tier = ctx.tier;
    validate_class_counter();
    validate_low_index_ref();
    for (name, ng, rels, k) in deep_groups(tier) {
        if ctx.take() {
            check_deep(ctx, name, ng, &rels, k);
        }
    }
    if ctx.nviolations() > 0 {
        return;
    }
    for g in infinite_groups().into_iter().chain(finite_groups().into_iter()) {
        if ctx.take() {
            check_case(ctx, "named", g.ng, &g.rels, k_for(g.ng, tier));
        }
    }
    // an empty relator (the identity) among the relators changes nothing
    for g in infinite_groups().into_iter().chain(finite_groups().into_iter()) {
        if ctx.take() {
            let mut r1 = g.rels.clone();
            r1.push(vec![]);
            check_case(ctx, "empty-relator", g.ng, &r1, k_for(g.ng, tier).min(4));
            let mut r2 = vec![vec![]];
            r2.extend(g.rels.iter().cloned());
            check_case(ctx, "empty-relator", g.ng, &r2, k_for(g.ng, tier).min(4));
        }
    }
    for (ng, rel_len, max_rels) in [(2usize, tier.pick(4, 5), 3usize), (3, 3, tier.pick(3, 4))] {
        let classes = cyc_reduced_words(ng, rel_len);
        for p in presentations(&classes, max_rels, true) {
            if ctx.take() {
                let k = if ng == 2 { tier.pick(5, 6) } else { tier.pick(4, 5) };
                check_case(ctx, "exhaustive", ng, &p, k);
            }
        }
    }
    // written forms: the group does not depend on how a relator is written.  Every cyclically reduced word of
    // length <= L (not only one representative per rotation/inversion class) as the single relator, and as the
    // first relator next to a second one from the class list
    {
        let (l2, l3) = (tier.pick(5, 6), tier.pick(3, 4));
        for (ng, maxlen, k) in [(2usize, l2, tier.pick(5, 6)), (3, l3, tier.pick(4, 5))] {
            let mut letters = vec![];
            for g in 1..=ng as isize {
                letters.push(g);
                letters.push(-g);
            }
            let mut frontier: Vec<Word> = vec![vec![]];
            let mut all: Vec<Word> = vec![];
            for _ in 0..maxlen {
                let mut next = vec![];
                for w in &frontier {
                    for &l in &letters {
                        if w.last().map_or(true, |&x| x != -l) {
                            let mut v = w.clone();
                            v.push(l);
                            next.push(v);
                        }
                    }
                }
                for w in &next {
                    if w.len() == 1 || w[0] != -w[w.len() - 1] {
                        all.push(w.clone());
                    }
                }
                frontier = next;
            }
            let seconds = cyc_reduced_words(ng, 2);
            for w in &all {
                if ctx.take() {
                    check_case(ctx, "written-forms", ng, &vec![w.clone()], k);
                }
                if w.len() >= 3 && w.len() <= maxlen - 1 {
                    for s2 in &seconds {
                        if ctx.take() {
                            check_case(ctx, "written-forms", ng, &vec![w.clone(), s2.clone()], k.min(5));
                        }
                    }
                }
            }
        }
    }
    // one generator: every <a | a^n>
    for n in 0..=12usize {
        if ctx.take() {
            let rels: Vec<Word> = if n == 0 { vec![] } else { vec![vec![1; n]] };
            check_case(ctx, "cyclic", 1, &rels, 8);
        }
    }
    // fundamental groups of D-symbols
    let sets: Vec<_> = ctx.supply("DSets::new", || DSets::new(2, tier.pick(6, 7)).collect::<Vec<_>>());
    for ds in sets {
        if !ctx.take() {
            continue;
        }
        let syms = ctx.supply("DSyms::new", || DSyms::new(&ds, Geometries::All).collect::<Vec<_>>());
        for sy in syms {
            if let Some(fg) = ctx.supply("fundamental_group", || Some(fundamental_group(&sy))) {
                let ng = fg.nr_generators();
                let rels: Vec<Word> = fg.relators.iter().map(|w| w.iter().cloned().collect::<Word>()).filter(|w| !w.is_empty()).collect();
                if ng >= 1 && ng <= 4 {
                    check_case(ctx, "dsym", ng, &rels, tier.pick(4, 5).min(k_for(ng, tier)));
                }
            }
        }
    }
}

fn replay(ctx: &mut Ctx, case: &Value) {
    let ng = case["ng"].as_u64().unwrap_or(2) as usize;
    let rels: Vec<Word> = case["rels"].as_array().map(|a| a.iter().map(|w| crate::util::isize_list(w)).collect()).unwrap_or_default();
    check_case(ctx, case["family"].as_str().unwrap_or("replay"), ng, &rels, case["k"].as_u64().unwrap_or(3) as usize);
}
