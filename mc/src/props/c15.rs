//! C15 — toroidal and pseudo-toroidal covers are branch-free tori.

use crate::engine::*;
use crate::enumerate::symbols::*;
use crate::props::common3d::*;
use crate::refmodel::dsym::*;
use crate::refmodel::three_d::*;
use crate::util::*;
use rust_dsymbols::delaney2d::toroidal_cover;
use rust_dsymbols::covers::covers;
use rust_dsymbols::dsets::DSet;
use rust_dsymbols::delaney3d::pseudo_toroidal_cover;
use serde_json::{json, Value};
use std::collections::BTreeSet;

pub fn spec() -> Spec {
    Spec {
        id: "C15",
        run,
        replay,
        nshards: |_| 16,
        case_cap_s: |t| t.pick(600, 7200),
        rule: "family '2d': one case per connected 2-dimensional symbol with curvature 0: every class of D-sets of size <= N x every branching vector over 1..6 (degenerate degrees included); family '3d': every admissible 3-dimensional symbol (spherical tiles and vertex figures by the reference model, branching in {1,2,3,4,6}) on every class of D-sets of size <= M, each under every relabeling (size <= 3; systematic family above) and its dual; family 'corpus': the 20 known-euclidean symbols of the repository's tests under relabelings and dual, and every [quick: a spread of the] relabeling of those with 4-6 chambers and of their duals (existence and sheet number). Oracle 2d: a result exists, covers the input (searched morphism with equal fibres), is oriented, all v = 1 and s0(d) != s2(d), curvature 0, H1 = Z^2 by textbook presentation + invariant factors. Oracle 3d: a returned cover is oriented, branch-free, covers the input, H1 = [0,0,0], sheet number over the oriented cover in {1,2,3,4,6,8,12,24}; Some/None and sheet number equal across relabelings and the dual; corpus symbols return Some. Non-trivial = a cover is returned.",
        assumptions: &["H1 is computed by the reference model (textbook presentation + i128 elimination with overflow detection); an overflow is reported as 'undecided' in the counters, never as a verdict"],
        bounds: |t| json!({"dim2_max_size": t.pick(5, 7), "dim2_V": [1,2,3,4,5,6], "dim3_max_size": t.pick(3, 4), "dim3_V": [1,2,3,4,6], "prism_family": {"base_2d_max_size": t.pick(4, 5)}, "cover_family": {"sheets": t.pick(4, 5), "max_chambers": t.pick(12, 15), "renumberings_per_cover": t.pick(json!("2, existence and sheet number only"), json!("5 + dual; the returned cover validated in full for the numbering covers() produces, existence and sheet number for the others"))}}),
    }
}

fn check_2d(ctx: &mut Ctx, s: &RS) {
    let case = json!({"family": "2d", "sym": rs_to_json(s)});
    ctx.announce(&case);
    let weight = s.n as u64;
    ctx.ops(1);
    let cov = match ctx.guard(|| from_dsym(&toroidal_cover(&to_partial_dsym(s)))) {
        Ok(Some(c)) => c,
        Ok(None) => {
            ctx.count(false);
            ctx.violation("toroidal-incomplete", case, "toroidal_cover is not complete".into(), weight);
            return;
        }
        Err(m) => {
            ctx.count(false);
            ctx.violation("panic:toroidal_cover", case, m, weight);
            return;
        }
    };
    ctx.count(true);
    ctx.max("max_sheets_2d", (cov.n / s.n) as i64);
    if ctx.want_sample() && s.n >= 2 {
        ctx.sample(json!({"case": case, "cover_size": cov.n}));
    }
    let mut why = vec![];
    if valid_symbol(&cov).is_err() || !cov.commutes() {
        why.push("not a valid symbol".to_string());
    } else {
        if !cov.is_connected() {
            why.push("not connected".into());
        }
        if !cov.is_oriented() {
            why.push("not oriented".into());
        }
        if !branch_free(&cov) {
            why.push("has branching (some v > 1 or s0(d) = s2(d))".into());
        }
        if cov.curvature2d().0 != 0 {
            why.push("curvature is not 0".into());
        }
        if cov.is_connected() && cov.covers(s).is_none() {
            why.push("does not cover the input".into());
        }
        match h1(&cov) {
            Some(h) => {
                if h != vec![0, 0] {
                    why.push(format!("H1 = {:?}, expected [0, 0]", h));
                }
            }
            None => ctx.add("h1_undecided_overflow", 1),
        }
    }
    if !why.is_empty() {
        ctx.violation("toroidal-cover", case, format!("toroidal_cover = {}: {}", cov.describe(), why.join("; ")), weight);
    }
}

/// existence and sheet number only (the cover itself is validated by `analyse_ptc` on the symbol as given)
fn ptc_sheets(ctx: &mut Ctx, s: &RS) -> Result<Option<usize>, String> {
    ctx.ops(1);
    match ctx.guard(|| pseudo_toroidal_cover(&to_partial_dsym(s)).map(|c| c.size())) {
        Err(m) => Err(format!("pseudo_toroidal_cover panicked: {}", m)),
        Ok(None) => Ok(None),
        Ok(Some(n)) => {
            let osize = if s.is_oriented() { s.n } else { 2 * s.n };
            if n % osize != 0 {
                return Err(format!("sheet number over the oriented cover is {}/{}", n, osize));
            }
            Ok(Some(n / osize))
        }
    }
}

/// Ok(Some(sheets over the oriented cover)) / Ok(None) / Err(problem)
pub fn analyse_ptc(ctx: &mut Ctx, s: &RS) -> Result<Option<(usize, RS)>, String> {
    ctx.ops(1);
    let r = ctx.guard(|| pseudo_toroidal_cover(&to_partial_dsym(s)).map(|c| from_dsym(&c)));
    match r {
        Err(m) => Err(format!("pseudo_toroidal_cover panicked: {}", m)),
        Ok(None) => Ok(None),
        Ok(Some(None)) => Err("the returned cover is not complete".into()),
        Ok(Some(Some(cov))) => {
            if valid_symbol(&cov).is_err() || !cov.commutes() {
                return Err("the returned cover is not a valid symbol".into());
            }
            if !cov.is_connected() {
                return Err("the returned cover is not connected".into());
            }
            if !cov.is_oriented() {
                return Err("the returned cover is not oriented".into());
            }
            if !branch_free(&cov) {
                return Err("the returned cover is not branch-free".into());
            }
            if cov.covers(s).is_none() {
                return Err(format!("the returned symbol of size {} does not cover the input", cov.n));
            }
            match h1(&cov) {
                Some(h) => {
                    if h != vec![0, 0, 0] {
                        return Err(format!("the returned cover has H1 = {:?}, expected [0, 0, 0]", h));
                    }
                }
                None => ctx.add("h1_undecided_overflow", 1),
            }
            let osize = if s.is_oriented() { s.n } else { 2 * s.n };
            if cov.n % osize != 0 || !POINT_GROUP_ORDERS.contains(&(cov.n / osize)) {
                return Err(format!("sheet number over the oriented cover is {}/{}", cov.n, osize));
            }
            Ok(Some((cov.n / osize, cov)))
        }
    }
}

fn check_3d(ctx: &mut Ctx, family: &str, s: &RS, must_have: bool) {
    check_3d_limited(ctx, family, s, must_have, usize::MAX, 0);
}

/// covers (up to 4 [5] sheets, at most 12 [15] chambers) of the small symbols that have a pseudo-toroidal cover:
/// larger symbols of the same crystallographic groups and of their subgroups, in the numbering `covers`
/// produces and under systematic renumberings
fn cover_family(ctx: &mut Ctx) {
    let tier = ctx.tier;
    let k = tier.pick(4, 5);
    let cap = tier.pick(12, 15);
    for n in 1..=3usize {
        for s in admissible_symbols(n) {
            // every worker lists the covers of every base and takes its share of the covers
            let t0 = std::time::Instant::now();
            let has = ctx.guard(|| pseudo_toroidal_cover(&to_partial_dsym(&s)).is_some());
            ctx.add("cpu_ms_cover_family_base_ptc", t0.elapsed().as_millis() as i64);
            match has {
                Ok(true) => {}
                _ => continue, // no cover (or a panic: reported by the main family)
            }
            let t0 = std::time::Instant::now();
            let list = ctx.supply("covers", || covers(&to_partial_dsym(&s), k).iter().map(|c| from_dsym(c)).collect::<Vec<_>>());
            ctx.add("cpu_ms_cover_family_listing", t0.elapsed().as_millis() as i64);
            for c in list.into_iter().flatten() {
                if c.n <= s.n || c.n > cap || c.n <= 4 || !ctx.take() {
                    continue;
                }
                if valid_symbol(&c).is_err() || !c.commutes() || !admissible3d(&c) || c.covers(&s).is_none() {
                    continue;
                }
                ctx.add("cover_family_symbols", 1);
                let t0 = std::time::Instant::now();
                check_3d_limited(ctx, "cover", &c, false, tier.pick(2, 5), tier.pick(1, 2));
                ctx.add("cpu_ms_cover_family_checks", t0.elapsed().as_millis() as i64);
                if ctx.nviolations() > 0 {
                    return;
                }
            }
        }
    }
}

fn check_3d_limited(ctx: &mut Ctx, family: &str, s: &RS, must_have: bool, max_variants: usize, mode: u8) {
    // mode 0: every returned cover validated in full; 1: existence and sheet number only; 2: full validation on
    // the symbol as given, existence and sheet number on its variants
    let light_first = mode == 1;
    let light_variants = mode >= 1;
    let case = json!({"family": family, "sym": rs_to_json(s)});
    ctx.announce(&case);
    let weight = s.n as u64;
    // (light mode: existence and sheet number only; the returned cover is validated in full at the thorough tier)
    let r0: Result<Option<(usize, usize)>, String> = if light_first { ptc_sheets(ctx, s).map(|x| x.map(|k| (k, 0))) } else { analyse_ptc(ctx, s).map(|x| x.map(|y| (y.0, y.1.n))) };
    let sheets0 = match &r0 {
        Err(e) => {
            ctx.count(false);
            ctx.violation("pseudo-toroidal-cover", case, e.clone(), weight);
            return;
        }
        Ok(x) => x.as_ref().map(|y| y.0),
    };
    ctx.count(sheets0.is_some());
    if sheets0.is_some() {
        ctx.add("covers_found", 1);
        ctx.max("max_cover_size", r0.as_ref().unwrap().as_ref().unwrap().1 as i64);
    }
    if must_have && sheets0.is_none() {
        ctx.violation("corpus", case.clone(), "no pseudo-toroidal cover for a known-euclidean symbol".into(), weight);
    }
    let mut variants: Vec<(String, RS)> = relabelings(s).into_iter().map(|t| ("relabeling".to_string(), t)).collect();
    if variants.len() > max_variants {
        // a spread of the systematic renumberings (the reversal is among them)
        let step = variants.len() / max_variants;
        variants = variants.into_iter().step_by(step.max(1)).take(max_variants).collect();
    }
    if family != "cover" || !light_variants {
        variants.push(("dual".into(), s.dual()));
    }
    for (what, t) in variants {
        let vcase = json!({"family": family, "sym": rs_to_json(s), "variant": what, "variant_sym": rs_to_json(&t)});
        ctx.announce(&vcase);
        let res = if light_variants { ptc_sheets(ctx, &t) } else { analyse_ptc(ctx, &t).map(|x| x.map(|y| y.0)) };
        match res {
            Err(e) => {
                ctx.violation("pseudo-toroidal-cover", vcase, e, weight);
                return;
            }
            Ok(sh) => {
                if sh != sheets0 {
                    ctx.violation("not-invariant", vcase, format!("sheet number over the oriented cover: {:?} for the symbol, {:?} for its {}", sheets0, sh, what), weight);
                    return;
                }
            }
        }
    }
}

fn class_reps2(n: usize) -> Vec<Vec<Vec<usize>>> {
    let mut reps: BTreeSet<Vec<Vec<usize>>> = BTreeSet::new();
    for_each_labeled_set(2, n, true, &mut |ops| {
        if ops_connected(ops) {
            reps.insert(RS::from_ops(ops.clone()).iso_key_bfs().ops);
        }
    });
    reps.into_iter().collect()
}

fn run(ctx: &mut Ctx) {
    let tier = ctx.tier;
    for n in 1..=tier.pick(5, 7) {
        for ops in class_reps2(n) {
            for_each_branching(&ops, &[1, 2, 3, 4, 5, 6], usize::MAX, &mut |s| {
                if s.curvature2d().0 == 0 && ctx.take() {
                    check_2d(ctx, s);
                }
            });
        }
    }
    for n in 1..=tier.pick(3, 4) {
        for s in admissible_symbols(n) {
            if ctx.take() {
                check_3d(ctx, "3d", &s, false);
            }
        }
    }
    for (_, s) in corpus() {
        if ctx.take() {
            check_3d(ctx, "corpus", &s, true);
        }
    }
    // every [quick: a spread of the] relabeling of the corpus symbols of 4-6 chambers and of their duals: a cover
    // is found and its sheet number over the oriented cover is the one found for the symbol as written
    for (_, s) in corpus() {
        if s.n < 4 {
            continue; // all relabelings of the smaller ones are part of check_3d
        }
        let ps = perms(s.n);
        let step = if tier.is_thorough() { 1 } else { match s.n { 4 => 1, 5 => 3, _ => 11 } };
        let mut sheets0: Option<Option<usize>> = None;
        for (tag, b) in [("relabeling", s.clone()), ("relabeling of the dual", s.dual())] {
            for p in ps.iter().step_by(step) {
                if !ctx.take() {
                    continue;
                }
                if sheets0.is_none() {
                    sheets0 = Some(ptc_sheets(ctx, &s).ok().flatten());
                }
                let t = b.relabel(p);
                let vcase = json!({"family": "corpus-relabelings", "sym": rs_to_json(&s), "variant": tag, "variant_sym": rs_to_json(&t)});
                ctx.announce(&vcase);
                ctx.add("corpus_relabelings", 1);
                ctx.count(true);
                match ptc_sheets(ctx, &t) {
                    Err(e) => {
                        ctx.violation("pseudo-toroidal-cover", vcase, e, s.n as u64);
                        return;
                    }
                    Ok(None) => {
                        ctx.violation("corpus", vcase, format!("no pseudo-toroidal cover for a {} of a known-euclidean symbol", tag), s.n as u64);
                        return;
                    }
                    Ok(sh) => {
                        if Some(sh) != sheets0 {
                            ctx.violation("not-invariant", vcase, format!("sheet number over the oriented cover: {:?} for the symbol, {:?} for its {}", sheets0, sh, tag), s.n as u64);
                            return;
                        }
                    }
                }
            }
        }
    }
    cover_family(ctx);
    if ctx.nviolations() == 0 {
        prism_family(ctx);
    }
}

/// prisms over every euclidean 2-dimensional symbol of size <= 4 [5] (3 chambers per chamber of the base): all 17
/// wallpaper groups times the infinite dihedral group, among them the groups with a 6-fold axis whose smallest
/// symbols are beyond the exhaustive sweep
fn prism_family(ctx: &mut Ctx) {
    let tier = ctx.tier;
    for t in euclidean_2d_symbols(tier.pick(4, 5)) {
        if !ctx.take() {
            continue;
        }
        let p = match prism_over(&t) {
            Some(p) if valid_symbol(&p).is_ok() && p.commutes() && admissible3d(&p) => p,
            _ => {
                ctx.add("prisms_rejected_by_reference_model", 1);
                continue;
            }
        };
        ctx.add("prisms", 1);
        ctx.max("largest_prism", p.n as i64);
        check_3d_limited(ctx, "prism", &p, false, tier.pick(3, usize::MAX), tier.pick(1, 0));
        if ctx.nviolations() > 0 {
            return;
        }
    }
}

fn replay(ctx: &mut Ctx, case: &Value) {
    if let Some(s) = rs_from_json(&case["sym"]) {
        match case["family"].as_str() {
            Some("2d") => check_2d(ctx, &s),
            Some("corpus") => check_3d(ctx, "corpus", &s, true),
            _ => check_3d(ctx, "3d", &s, false),
        }
    }
}
