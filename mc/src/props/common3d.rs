//! Shared inputs and helpers for the 3-dimensional properties C15, C16, C17.

use crate::enumerate::symbols::*;
use crate::refmodel::dsym::*;
use crate::refmodel::groups::*;
use crate::refmodel::pi1::*;
use crate::refmodel::three_d::*;
use rust_dsymbols::dsyms::PartialDSym;
use std::collections::BTreeSet;

/// the known-euclidean symbols that occur literally in the repository's tests
pub const CORPUS: &[&str] = &[
    "<1.4:1 3:1,1,1,1:4,3,4>",
    "<2.1:2 3:1 2,1 2,1 2,2:3 3,3 4,4>",
    "<513.5:2 3:2,1 2,1 2,2:4,2 4,6>",
    "<513.8:2 3:2,1 2,1 2,2:6,2 3,6>",
    "<3.3:3 3:1 2 3,1 2 3,1 3,2 3:3 3 4,4 4,3>",
    "<167.3:3 3:1 2 3,1 3,2 3,1 2 3:3 4,3,4 6>",
    "<184.4:3 3:1 2 3,1 3,2 3,1 3:4 6,3,3>",
    "<23.14:4 3:1 2 3 4,1 2 4,1 3 4,2 3 4:3 3 8,4 3,3 4>",
    "<71.3:4 3:1 2 3 4,1 2 4,1 3 4,2 4:3 3 6,3 3,4>",
    "<514.7:4 3:2 4,1 2 3 4,1 2 3 4,3 4:4 4,2 4 4 3,4 4>",
    "<553.3:4 3:2 4,1 2 3 4,3 4,2 4:4 6,2 6,4>",
    "<45.2:5 3:1 2 3 5,1 2 4 5,1 3 4 5,2 3 4 5:3 3 3,3 3 3,6 4 4>",
    "<45.7:5 3:1 2 3 5,1 2 4 5,1 3 4 5,2 3 4 5:3 3 3,4 3 3,6 3 3>",
    "<45.12:5 3:1 2 3 5,1 2 4 5,1 3 4 5,2 3 4 5:3 3 6,4 3 3,3 4 4>",
    "<54.2:5 3:1 2 3 5,1 2 4 5,1 3 5,2 3 4 5:3 3 3,3 4,3 6>",
    "<54.4:5 3:1 2 3 5,1 2 4 5,1 3 5,2 3 4 5:3 3 3,4 4,3 4>",
    "<222.77:5 3:1 2 4 5,1 3 5,2 3 4 5,1 5 4:4 12,3 2,3 4>",
    "<1.1:2 3:2,1 2,1 2,2:6,3 2,6>",
    "<1.1:6 3:2 4 6,1 2 3 5 6,3 4 5 6,2 3 4 5 6:6 4,2 3 3,8 4 4>",
    "<1.1:2 3:2,2,2,2:4,3,4>",
];

pub fn corpus() -> Vec<(String, RS)> {
    CORPUS
        .iter()
        .filter_map(|t| {
            let p: PartialDSym = t.parse().ok()?;
            Some((t.to_string(), from_dsym(&p)?))
        })
        .collect()
}

/// one representative per isomorphism class of connected commuting 3-dimensional D-sets of size n
pub fn dset_representatives3(n: usize) -> Vec<Vec<Vec<usize>>> {
    let mut reps: BTreeSet<Vec<Vec<usize>>> = BTreeSet::new();
    for_each_labeled_set(3, n, true, &mut |ops| {
        if ops_connected(ops) {
            reps.insert(RS::from_ops(ops.clone()).iso_key_bfs().ops);
        }
    });
    reps.into_iter().collect()
}

/// all admissible symbols (spherical tiles and vertex figures, branching in {1,2,3,4,6}) on those representatives
pub fn admissible_symbols(n: usize) -> Vec<RS> {
    let mut out = vec![];
    for ops in dset_representatives3(n) {
        for_each_branching(&ops, &[1, 2, 3, 4, 6], usize::MAX, &mut |s| {
            if admissible3d(s) {
                out.push(s.clone());
            }
        });
    }
    out
}

/// the relabelings used for invariance: all of them up to size 3, the systematic family above
pub fn relabelings(s: &RS) -> Vec<RS> {
    let mut seen: BTreeSet<RS> = BTreeSet::new();
    seen.insert(s.clone());
    let mut out = vec![];
    let ps: Vec<Vec<usize>> = if s.n <= 3 { perms(s.n) } else { systematic_renumberings(s.n).into_iter().map(|x| x.1).collect() };
    for p in ps {
        let t = s.relabel(&p);
        if seen.insert(t.clone()) {
            out.push(t);
        }
    }
    out
}

/// first homology (abelian invariants) from the textbook presentation; None if the reference elimination overflows
pub fn h1(s: &RS) -> Option<Vec<i128>> {
    let tb = textbook_pi1(s);
    let rows: Vec<Vec<i64>> = tb.rels.iter().map(|r| exponent_vector(tb.ngens, r)).collect();
    if rows.len() <= 4 && tb.ngens <= 4 {
        return Some(abelian_invariants_ref(tb.ngens, &rows));
    }
    let f = invariant_factors_elim(&rows, tb.ngens)?;
    let mut out: Vec<i128> = f.iter().cloned().filter(|&x| x != 1).collect();
    for _ in f.len()..tb.ngens {
        out.push(0);
    }
    out.sort();
    Some(out)
}

pub const POINT_GROUP_ORDERS: [usize; 8] = [1, 2, 3, 4, 6, 8, 12, 24];

/// The tiling of space by right prisms over a 2-dimensional tiling, with the mirror symmetries of the layers:
/// three chambers A, B, C per chamber d of the 2-dimensional symbol `t` (A: base edge in a base face, B: base
/// edge in a side face, C: vertical edge in a side face).  Euclidean whenever `t` is; its group is the
/// wallpaper group of `t` times the infinite dihedral group.  None if some degree is not a multiple of its
/// orbit length (does not happen for valid `t`).
pub fn prism_over(t: &RS) -> Option<RS> {
    if t.dim() != 2 {
        return None;
    }
    let n = t.n;
    let (a, b, c) = (|d: usize| d, |d: usize| n + d, |d: usize| 2 * n + d);
    let mut ops = vec![vec![0usize; 3 * n]; 4];
    let mut m = vec![vec![0usize; 3 * n]; 3];
    for d in 0..n {
        let (s0, s1, s2) = (t.ops[0][d], t.ops[1][d], t.ops[2][d]);
        ops[0][a(d)] = a(s0);
        ops[1][a(d)] = a(s1);
        ops[2][a(d)] = b(d);
        ops[3][a(d)] = a(d);
        ops[0][b(d)] = b(s0);
        ops[1][b(d)] = c(d);
        ops[2][b(d)] = a(d);
        ops[3][b(d)] = b(s2);
        ops[0][c(d)] = c(d);
        ops[1][c(d)] = b(d);
        ops[2][c(d)] = c(s1);
        ops[3][c(d)] = c(s2);
        let m01 = t.r(0, 1, d) * t.v[0][d];
        let m12 = t.r(1, 2, d) * t.v[1][d];
        m[0][a(d)] = m01;
        m[0][b(d)] = 4;
        m[0][c(d)] = 4;
        for x in [a(d), b(d), c(d)] {
            m[1][x] = 3;
        }
        m[2][a(d)] = 4;
        m[2][b(d)] = 4;
        m[2][c(d)] = m12;
    }
    let plain = RS::from_ops(ops.clone());
    let mut v = vec![vec![0usize; 3 * n]; 3];
    for i in 0..3 {
        for d in 0..3 * n {
            let r = plain.r(i, i + 1, d);
            if r == 0 || m[i][d] % r != 0 {
                return None;
            }
            v[i][d] = m[i][d] / r;
        }
    }
    Some(RS { n: 3 * n, ops, v })
}

/// every euclidean (curvature 0) 2-dimensional symbol on one representative per class of D-sets of size <= max_n,
/// branching in 1..=6
pub fn euclidean_2d_symbols(max_n: usize) -> Vec<RS> {
    let mut out = vec![];
    for n in 1..=max_n {
        let mut reps: BTreeSet<Vec<Vec<usize>>> = BTreeSet::new();
        for_each_labeled_set(2, n, true, &mut |ops| {
            if ops_connected(ops) {
                reps.insert(RS::from_ops(ops.clone()).iso_key_bfs().ops);
            }
        });
        for ops in reps {
            for_each_branching(&ops, &[1, 2, 3, 4, 5, 6], usize::MAX, &mut |s| {
                if s.curvature2d().0 == 0 {
                    out.push(s.clone());
                }
            });
        }
    }
    out
}
