//! Shared inputs and helpers for the 3-dimensional properties C15, C16, C17.

use crate::enumerate::symbols::*;
use crate::refmodel::dsym::*;
use crate::refmodel::groups::*;
use crate::refmodel::pi1::*;
use crate::refmodel::three_d::*;
use rust_dsymbols::dsyms::PartialDSym;
use std::collections::BTreeSet;

/// the known-euclidean symbols that occur literally in the repository's tests
pub const CORPUS: &[&str] = &[
    "<1.4:1 3:1,1,1,1:4,3,4>",
    "<2.1:2 3:1 2,1 2,1 2,2:3 3,3 4,4>",
    "<513.5:2 3:2,1 2,1 2,2:4,2 4,6>",
    "<513.8:2 3:2,1 2,1 2,2:6,2 3,6>",
    "<3.3:3 3:1 2 3,1 2 3,1 3,2 3:3 3 4,4 4,3>",
    "<167.3:3 3:1 2 3,1 3,2 3,1 2 3:3 4,3,4 6>",
    "<184.4:3 3:1 2 3,1 3,2 3,1 3:4 6,3,3>",
    "<23.14:4 3:1 2 3 4,1 2 4,1 3 4,2 3 4:3 3 8,4 3,3 4>",
    "<71.3:4 3:1 2 3 4,1 2 4,1 3 4,2 4:3 3 6,3 3,4>",
    "<514.7:4 3:2 4,1 2 3 4,1 2 3 4,3 4:4 4,2 4 4 3,4 4>",
    "<553.3:4 3:2 4,1 2 3 4,3 4,2 4:4 6,2 6,4>",
    "<45.2:5 3:1 2 3 5,1 2 4 5,1 3 4 5,2 3 4 5:3 3 3,3 3 3,6 4 4>",
    "<45.7:5 3:1 2 3 5,1 2 4 5,1 3 4 5,2 3 4 5:3 3 3,4 3 3,6 3 3>",
    "<45.12:5 3:1 2 3 5,1 2 4 5,1 3 4 5,2 3 4 5:3 3 6,4 3 3,3 4 4>",
    "<54.2:5 3:1 2 3 5,1 2 4 5,1 3 5,2 3 4 5:3 3 3,3 4,3 6>",
    "<54.4:5 3:1 2 3 5,1 2 4 5,1 3 5,2 3 4 5:3 3 3,4 4,3 4>",
    "<222.77:5 3:1 2 4 5,1 3 5,2 3 4 5,1 5 4:4 12,3 2,3 4>",
    "<1.1:2 3:2,1 2,1 2,2:6,3 2,6>",
    "<1.1:6 3:2 4 6,1 2 3 5 6,3 4 5 6,2 3 4 5 6:6 4,2 3 3,8 4 4>",
    "<1.1:2 3:2,2,2,2:4,3,4>",
];

pub fn corpus() -> Vec<(String, RS)> {
    CORPUS
        .iter()
        .filter_map(|t| {
            let p: PartialDSym = t.parse().ok()?;
            Some((t.to_string(), from_dsym(&p)?))
        })
        .collect()
}

/// one representative per isomorphism class of connected commuting 3-dimensional D-sets of size n
pub fn dset_representatives3(n: usize) -> Vec<Vec<Vec<usize>>> {
    let mut reps: BTreeSet<Vec<Vec<usize>>> = BTreeSet::new();
    for_each_labeled_set(3, n, true, &mut |ops| {
        if ops_connected(ops) {
            reps.insert(RS::from_ops(ops.clone()).iso_key_bfs().ops);
        }
    });
    reps.into_iter().collect()
}

/// all admissible symbols (spherical tiles and vertex figures, branching in {1,2,3,4,6}) on those representatives
pub fn admissible_symbols(n: usize) -> Vec<RS> {
    let mut out = vec![];
    for ops in dset_representatives3(n) {
        for_each_branching(&ops, &[1, 2, 3, 4, 6], usize::MAX, &mut |s| {
            if admissible3d(s) {
                out.push(s.clone());
            }
        });
    }
    out
}

/// the relabelings used for invariance: all of them up to size 3, the systematic family above
pub fn relabelings(s: &RS) -> Vec<RS> {
    let mut seen: BTreeSet<RS> = BTreeSet::new();
    seen.insert(s.clone());
    let mut out = vec![];
    let ps: Vec<Vec<usize>> = if s.n <= 3 { perms(s.n) } else { systematic_renumberings(s.n).into_iter().map(|x| x.1).collect() };
    for p in ps {
        let t = s.relabel(&p);
        if seen.insert(t.clone()) {
            out.push(t);
        }
    }
    out
}

/// first homology (abelian invariants) from the textbook presentation; None if the reference elimination overflows
pub fn h1(s: &RS) -> Option<Vec<i128>> {
    let tb = textbook_pi1(s);
    let rows: Vec<Vec<i64>> = tb.rels.iter().map(|r| exponent_vector(tb.ngens, r)).collect();
    if rows.len() <= 4 && tb.ngens <= 4 {
        return Some(abelian_invariants_ref(tb.ngens, &rows));
    }
    let f = invariant_factors_elim(&rows, tb.ngens)?;
    let mut out: Vec<i128> = f.iter().cloned().filter(|&x| x != 1).collect();
    for _ in f.len()..tb.ngens {
        out.push(0);
    }
    out.sort();
    Some(out)
}

pub const POINT_GROUP_ORDERS: [usize; 8] = [1, 2, 3, 4, 6, 8, 12, 24];
