//! C05 — every cover constructor returns a genuine covering of the base symbol.

use crate::engine::*;
use crate::enumerate::symbols::*;
use crate::refmodel::dsym::*;
use crate::refmodel::groups::*;
use crate::refmodel::pi1::*;
use crate::util::*;
use rust_dsymbols::covers::{covers, finite_universal_cover, subgroup_cover};
use rust_dsymbols::derived::oriented_cover;
use rust_dsymbols::fpgroups::free_words::FreeWord;
use rust_dsymbols::fundamental_group::fundamental_group;
use serde_json::{json, Value};
use std::collections::BTreeSet;

pub fn spec() -> Spec {
    Spec {
        id: "C05",
        run,
        replay,
        nshards: |_| 16,
        case_cap_s: |t| t.pick(300, 3600),
        rule: "one case per connected complete symbol: every labeled symbol (all renumberings) of dimension 2 size <= 3 and dimension 3 size <= 2, one representative per isomorphism class of D-sets x all branching vectors over {1,2,3} for dimension 2 size 4 (thorough: 5) and dimension 3 size 3 (thorough). Per case: oriented_cover; covers(s, k) for every k up to the sheet bound; finite_universal_cover and subgroup_cover for every set of <= 2 words of length <= 2 when the group (reference Todd-Coxeter on the textbook presentation) has at most the order bound. Oracle: each returned symbol is complete, valid, connected and admits a chamber map onto the base (searched from every base image, not assumed) that commutes with all operations, preserves all degrees and has equal fibres; oriented cover is oriented with 1 or 2 sheets; universal cover has |G| sheets; number of covers per sheet number = number of conjugacy classes of subgroups of that index (homomorphism-counting oracle on the textbook presentation); covers pairwise inequivalent as coverings. Non-trivial = the symbol has a proper cover within the bounds.",
        assumptions: &["class counts are computed only while (n!)^generators <= 2*10^6 for the textbook presentation; skipped counts are reported", "pairwise inequivalence uses the projection d -> (d-1) mod size + 1 documented by derived::cover, and only after verifying that it is a covering map for both covers"],
        bounds: |t| json!({"dim2_labeled_max_size": 3, "dim2_class_rep_size": t.pick(5, 6), "dim3_labeled_max_size": 2, "dim3_class_rep_size": 3, "V": [1,2,3], "sheet_bound": t.pick(4, 5), "deep_family": {"bases": "25 tiny symbols with degrees up to 12 (triangle groups, 3D Coxeter groups, 3-chamber chains)", "sheet_bound": t.pick(10, 12)},
            "group_order_bound": t.pick(384, 1152), "subgroup_word_len": 2, "subgroup_max_words": 2}),
    }
}

/// is `proj` (0-based cover chamber -> base chamber) a covering morphism with equal fibres?
fn is_covering_map(c: &RS, base: &RS, proj: &[usize]) -> bool {
    if !c.is_morphism(base, proj) {
        return false;
    }
    let mut cnt = vec![0usize; base.n];
    for &x in proj {
        cnt[x] += 1;
    }
    cnt.iter().all(|&k| k * base.n == c.n)
}

/// checks the covering clauses; returns the number of sheets
fn check_cover(ctx: &mut Ctx, case: &Value, what: &str, base: &RS, c: &Option<RS>, weight: u64) -> Option<usize> {
    ctx.ops(1);
    let c = match c {
        Some(c) => c,
        None => {
            ctx.violation("cover-incomplete", case.clone(), format!("{}: returned symbol is not complete", what), weight);
            return None;
        }
    };
    if let Err(e) = valid_symbol(c) {
        ctx.violation("cover-invalid", case.clone(), format!("{}: {} ({})", what, e, c.describe()), weight);
        return None;
    }
    if !c.is_connected() {
        ctx.violation("cover-disconnected", case.clone(), format!("{}: returned symbol {} is not connected", what, c.describe()), weight);
        return None;
    }
    match c.covers(base) {
        Some(k) => Some(k),
        None => {
            ctx.violation("not-a-covering", case.clone(), format!("{}: no operation-commuting, degree-preserving chamber map with equal fibres from {} onto the base", what, c.describe()), weight);
            None
        }
    }
}

pub fn check_symbol(ctx: &mut Ctx, family: &str, s: &RS) {
    let case = json!({"family": family, "sym": rs_to_json(s)});
    ctx.announce(&case);
    let weight = (s.n * 10 + s.dim()) as u64;
    let tier = ctx.tier;
    let kmax = tier.pick(4, 5);
    let cs = match ctx.guard(|| to_partial_dsym(s)) {
        Ok(x) => x,
        Err(m) => {
            ctx.violation("panic:build", case, m, weight);
            return;
        }
    };
    // --- oriented cover
    match ctx.guard(|| from_dsym(&oriented_cover(&cs))) {
        Ok(oc) => {
            if let Some(k) = check_cover(ctx, &case, "oriented_cover", s, &oc, weight) {
                let oc = oc.unwrap();
                let exp = if s.is_oriented() { 1 } else { 2 };
                if !oc.is_oriented() || k != exp {
                    ctx.violation("oriented-cover", case.clone(), format!("oriented_cover = {}: oriented = {}, sheets = {}, expected oriented with {} sheet(s)", oc.describe(), oc.is_oriented(), k, exp), weight);
                }
            }
        }
        Err(m) => ctx.violation("panic:oriented_cover", case.clone(), m, weight),
    }
    // --- list of covers
    let tb = textbook_pi1(s);
    let mut any_proper = false;
    for k in 1..=kmax {
        let list = match ctx.guard(|| covers(&cs, k).iter().map(|c| from_dsym(c)).collect::<Vec<_>>()) {
            Ok(l) => l,
            Err(m) => {
                ctx.violation("panic:covers", case.clone(), format!("covers(s, {}): {}", k, m), weight);
                return;
            }
        };
        let kcase = json!({"family": family, "sym": rs_to_json(s), "max_sheets": k});
        let mut by_sheets = vec![0usize; k + 1];
        let mut ok_list: Vec<RS> = vec![];
        for c in &list {
            match check_cover(ctx, &kcase, "covers", s, c, weight) {
                Some(sh) if sh >= 1 && sh <= k => {
                    by_sheets[sh] += 1;
                    ok_list.push(c.clone().unwrap());
                }
                Some(sh) => {
                    ctx.violation("too-many-sheets", kcase.clone(), format!("a cover has {} sheets, bound is {}", sh, k), weight);
                    return;
                }
                None => return,
            }
        }
        let mut expected = vec![0usize; k + 1];
        let mut counted = true;
        for idx in 1..=k {
            let f: f64 = (1..=idx).product::<usize>() as f64;
            if f.powi(tb.ngens as i32) <= 2.0e6 {
                expected[idx] = count_classes(tb.ngens, &tb.rels, idx);
            } else {
                counted = false;
            }
        }
        if !counted {
            // too many generators for the homomorphism counter: the reference backtracking search instead
            if let Some(acts) = low_index_ref(tb.ngens, &tb.rels, k, 2_000_000) {
                expected = vec![0usize; k + 1];
                for a in &acts {
                    expected[a.len()] += 1;
                }
                counted = true;
                ctx.add("cover_counts_by_backtracking_reference", 1);
            }
        }
        if counted {
            ctx.ops(1);
            ctx.add("cover_counts_compared", 1);
            if expected.iter().skip(2).any(|&x| x > 0) {
                any_proper = true;
            }
            if by_sheets[1..] != expected[1..] {
                ctx.violation("cover-count", kcase.clone(), format!("covers per sheet number {:?}, conjugacy classes of subgroups per index {:?} (textbook presentation <{} | {:?}>)", &by_sheets[1..], &expected[1..], tb.ngens, tb.rels), weight);
                return;
            }
        } else {
            ctx.add("cover_counts_skipped_for_cost", 1);
        }
        // pairwise inequivalent as coverings (documented layout, verified before use)
        if k == kmax {
            let projs: Vec<Option<Vec<usize>>> = ok_list
                .iter()
                .map(|c| {
                    let p: Vec<usize> = (0..c.n).map(|d| d % s.n).collect();
                    if is_covering_map(c, s, &p) {
                        Some(p)
                    } else {
                        None
                    }
                })
                .collect();
            if projs.iter().all(|p| p.is_some()) {
                'pairs: for a in 0..ok_list.len() {
                    for b in (a + 1)..ok_list.len() {
                        if ok_list[a].n != ok_list[b].n {
                            continue;
                        }
                        let (pa, pb) = (projs[a].as_ref().unwrap(), projs[b].as_ref().unwrap());
                        for phi in ok_list[a].morphisms(&ok_list[b]) {
                            // bijective automatically (connected, same size); commuting with the projections?
                            if (0..ok_list[a].n).all(|d| pb[phi[d]] == pa[d]) {
                                ctx.violation("equivalent-covers", kcase.clone(), format!("covers number {} and {} of the list are equivalent as coverings", a + 1, b + 1), weight);
                                break 'pairs;
                            }
                        }
                    }
                }
                ctx.ops(1);
            } else {
                ctx.add("layout_not_documented_projection", 1);
            }
        }
    }
    ctx.count(any_proper);
    // --- universal and subgroup covers for finite groups
    let order_cap = tier.pick(384, 1152);
    if let Some(reg) = Tc::run(tb.ngens, &tb.rels, &[], 40 * order_cap + 2000) {
        let order = reg.len();
        if order <= order_cap {
            ctx.add("finite_groups", 1);
            match ctx.guard(|| from_dsym(&finite_universal_cover(&cs))) {
                Ok(uc) => {
                    if let Some(k) = check_cover(ctx, &case, "finite_universal_cover", s, &uc, weight) {
                        if k != order {
                            ctx.violation("universal-cover", case.clone(), format!("finite_universal_cover has {} sheets, the orbifold group has order {}", k, order), weight);
                        }
                    }
                }
                Err(m) => ctx.violation("panic:finite_universal_cover", case.clone(), m, weight),
            }
            if let Ok(ng) = ctx.guard(|| fundamental_group(&cs).nr_generators()) {
                if ng >= 1 && order <= 120 {
                    let ws = reduced_words(ng.min(4), 2);
                    let mut sets: Vec<Vec<Word>> = vec![];
                    for i in 0..ws.len() {
                        sets.push(vec![ws[i].clone()]);
                        for j in (i + 1)..ws.len() {
                            if ws[i].len() + ws[j].len() <= 3 {
                                sets.push(vec![ws[i].clone(), ws[j].clone()]);
                            }
                        }
                    }
                    for subs in sets {
                        let scase = json!({"family": family, "sym": rs_to_json(s), "subgroup": subs});
                        let fws: Vec<FreeWord> = subs.iter().map(|w| FreeWord::from(w.clone())).collect();
                        match ctx.guard(|| from_dsym(&subgroup_cover(&cs, &fws))) {
                            Ok(c) => {
                                check_cover(ctx, &scase, "subgroup_cover", s, &c, weight);
                                ctx.add("subgroup_covers", 1);
                            }
                            Err(m) => ctx.violation("panic:subgroup_cover", scase, m, weight),
                        }
                    }
                }
            }
        }
    }
}

/// many-sheeted covers of tiny symbols with larger degrees (triangle groups such as (2,3,7), (2,3,8), (2,4,5),
/// 3-dimensional Coxeter groups): the low-index search behind `covers` reaches index 10 [12] here, far beyond
/// the exhaustive family.  Every entry must be a genuine covering with at most k sheets, the list for k must
/// extend the list for k - 1 without changing the counts per sheet number, and no two entries may be
/// equivalent as coverings; the counts per sheet number are those of the reference backtracking search (R5b).
fn deep_covers(ctx: &mut Ctx) {
    let kmax = ctx.tier.pick(10, 12);
    let mut bases: Vec<RS> = vec![];
    for (a, b) in [(3usize, 7usize), (7, 3), (3, 8), (4, 5), (5, 4), (5, 5), (3, 10), (4, 6), (3, 6), (4, 4), (3, 12), (6, 6), (3, 5), (2, 9)] {
        bases.push(RS { n: 1, ops: vec![vec![0]; 3], v: vec![vec![a], vec![b]] });
    }
    for (a, b, c) in [(4usize, 3usize, 4usize), (5, 3, 4), (3, 5, 3), (6, 2, 6), (9, 2, 9), (4, 3, 5), (3, 3, 6), (6, 3, 6)] {
        bases.push(RS { n: 1, ops: vec![vec![0]; 4], v: vec![vec![a], vec![b], vec![c]] });
    }
    // <1.1:3:1 2 3,1 3,2 3:3 10,3> and relatives: three chambers in a chain
    for (x, y, z) in [(3usize, 10usize, 3usize), (4, 7, 3), (3, 7, 4)] {
        let ops = vec![vec![0, 1, 2], vec![0, 2, 1], vec![1, 0, 2]];
        let plain = RS::from_ops(ops.clone());
        let m0 = [x, y, y];
        let m1 = [z, z, z];
        let mut v = vec![vec![0; 3]; 2];
        let mut ok = true;
        for d in 0..3 {
            let (r0, r1) = (plain.r(0, 1, d), plain.r(1, 2, d));
            if m0[d] % r0 != 0 || m1[d] % r1 != 0 {
                ok = false;
            }
            v[0][d] = m0[d] / r0.max(1);
            v[1][d] = m1[d] / r1.max(1);
        }
        let s = RS { n: 3, ops, v };
        if ok && valid_symbol(&s).is_ok() {
            bases.push(s);
        }
    }
    for s in bases {
        if !ctx.take() {
            continue;
        }
        let case = json!({"family": "deep", "sym": rs_to_json(&s)});
        ctx.announce(&case);
        ctx.count(true);
        let weight = 1000 + s.n as u64;
        let cs = to_partial_dsym(&s);
        let mut prev: Vec<usize> = vec![];
        for k in [kmax - 1, kmax] {
            let kcase = json!({"family": "deep", "sym": rs_to_json(&s), "max_sheets": k});
            ctx.announce(&kcase);
            let list = match ctx.guard(|| covers(&cs, k).iter().map(|c| from_dsym(c)).collect::<Vec<_>>()) {
                Ok(l) => l,
                Err(m) => {
                    ctx.violation("panic:covers", kcase, format!("covers(s, {}): {}", k, m), weight);
                    return;
                }
            };
            let mut by_sheets = vec![0usize; k + 1];
            let mut ok_list: Vec<RS> = vec![];
            for c in &list {
                match check_cover(ctx, &kcase, "covers", &s, c, weight) {
                    Some(sh) if sh >= 1 && sh <= k => {
                        by_sheets[sh] += 1;
                        ok_list.push(c.clone().unwrap());
                    }
                    Some(sh) => {
                        ctx.violation("too-many-sheets", kcase.clone(), format!("a cover has {} sheets, bound is {}", sh, k), weight);
                        return;
                    }
                    None => return,
                }
            }
            ctx.add("deep_covers_checked", list.len() as i64);
            if !prev.is_empty() && prev[1..] != by_sheets[1..prev.len()] {
                ctx.violation("cover-count", kcase.clone(), format!("covers per sheet number {:?} for bound {}, but {:?} for bound {}", &by_sheets[1..], k, &prev[1..], k - 1), weight);
                return;
            }
            if k == kmax {
                // class count from the reference backtracking search on the textbook presentation
                let tb = textbook_pi1(&s);
                match low_index_ref(tb.ngens, &tb.rels, k, 20_000_000) {
                    Some(acts) => {
                        let mut exp = vec![0usize; k + 1];
                        for a in &acts {
                            exp[a.len()] += 1;
                        }
                        ctx.add("deep_cover_counts_compared", 1);
                        if by_sheets[1..] != exp[1..] {
                            ctx.violation("cover-count", kcase.clone(), format!("covers per sheet number {:?}, conjugacy classes of subgroups per index {:?} (textbook presentation, reference backtracking search)", &by_sheets[1..], &exp[1..]), weight);
                            return;
                        }
                    }
                    None => ctx.add("deep_cover_counts_skipped_for_cost", 1),
                }
            }
            prev = by_sheets;
            if k == kmax {
                let projs: Vec<Option<Vec<usize>>> = ok_list.iter().map(|c| { let p: Vec<usize> = (0..c.n).map(|d| d % s.n).collect(); if is_covering_map(c, &s, &p) { Some(p) } else { None } }).collect();
                if projs.iter().all(|p| p.is_some()) {
                    'pairs: for a in 0..ok_list.len() {
                        for b in (a + 1)..ok_list.len() {
                            if ok_list[a].n != ok_list[b].n {
                                continue;
                            }
                            let (pa, pb) = (projs[a].as_ref().unwrap(), projs[b].as_ref().unwrap());
                            for phi in ok_list[a].morphisms(&ok_list[b]) {
                                if (0..ok_list[a].n).all(|d| pb[phi[d]] == pa[d]) {
                                    ctx.violation("equivalent-covers", kcase.clone(), format!("covers number {} and {} of the list are equivalent as coverings", a + 1, b + 1), weight);
                                    break 'pairs;
                                }
                            }
                        }
                    }
                } else {
                    ctx.add("layout_not_documented_projection", 1);
                }
            }
        }
    }
}

fn class_representatives(dim: usize, n: usize) -> Vec<Vec<Vec<usize>>> {
    let mut reps: BTreeSet<Vec<Vec<usize>>> = BTreeSet::new();
    for_each_labeled_set(dim, n, true, &mut |ops| {
        if ops_connected(ops) {
            reps.insert(RS::from_ops(ops.clone()).iso_key_bfs().ops);
        }
    });
    reps.into_iter().collect()
}

fn run(ctx: &mut Ctx) {
    let tier = ctx.tier;
    for (dim, maxn) in [(2usize, 3usize), (3, 2)] {
        for n in 1..=maxn {
            for_each_connected_symbol(dim, n, &[1, 2, 3], usize::MAX, &mut |s| {
                if ctx.take() {
                    if ctx.want_sample() && n >= 2 {
                        ctx.sample(json!({"family": "labeled", "sym": rs_to_json(s)}));
                    }
                    check_symbol(ctx, "labeled", s);
                }
            });
        }
    }
    deep_covers(ctx);
    if ctx.nviolations() > 0 {
        return;
    }
    let mut fams: Vec<(usize, usize)> = vec![(2, 4), (2, 5), (3, 3)];
    if tier.is_thorough() {
        fams.push((2, 6));
    }
    for (dim, n) in fams {
        for ops in class_representatives(dim, n) {
            for_each_branching(&ops, &[1, 2, 3], usize::MAX, &mut |s| {
                if ctx.take() {
                    check_symbol(ctx, "representative", s);
                }
            });
        }
    }
}

fn replay(ctx: &mut Ctx, case: &Value) {
    if let Some(s) = rs_from_json(&case["sym"]) {
        check_symbol(ctx, "replay", &s);
    }
}
