use crate::engine::Spec;

pub mod c01;
pub mod c02;
pub mod c03;
pub mod c04;
pub mod c05;
pub mod c06;
pub mod c07;
pub mod c08;
pub mod c09;
pub mod c10;
pub mod c11;
pub mod c12;
pub mod c13;
pub mod c14;
pub mod c15;
pub mod c16;
pub mod c17;
pub mod c18;
pub mod common3d;
pub mod c19;
pub mod c20;

pub fn all() -> Vec<Spec> {
    vec![c01::spec(), c02::spec(), c03::spec(), c04::spec(), c05::spec(), c06::spec(), c07::spec(), c08::spec(), c09::spec(), c10::spec(), c11::spec(), c12::spec(), c13::spec(), c14::spec(), c15::spec(), c16::spec(), c17::spec(), c18::spec(), c19::spec(), c20::spec()]
}
