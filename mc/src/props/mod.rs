use crate::engine::Spec;

pub mod c02;

pub fn all() -> Vec<Spec> {
    vec![c02::spec()]
}
