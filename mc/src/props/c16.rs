//! C16 — simplification keeps a 3D tiling a valid manifold of the same topology.

use crate::engine::*;
use crate::enumerate::symbols::*;
use crate::g3;
use crate::props::common3d::*;
use crate::refmodel::dsym::*;
use crate::refmodel::groups::Word;
use crate::refmodel::three_d::*;
use crate::util::*;
use rust_dsymbols::covers::covers;
use rust_dsymbols::delaney3d::pseudo_toroidal_cover;
use rust_dsymbols::fpgroups::cosets::coset_tables;
use rust_dsymbols::fundamental_group::fundamental_group;
use rust_dsymbols::simplify::simplify;
use serde_json::{json, Value};
use std::collections::BTreeSet;

pub fn spec() -> Spec {
    Spec {
        id: "C16",
        run,
        replay,
        nshards: |_| 16,
        case_cap_s: |t| t.pick(900, 14400),
        rule: "one case per (input D-set, renumbering); each case is explored under EVERY schedule of the hash-order choice point in simplify::network_cut with at most B deviations from 'first candidate' (G3), every schedule executed twice. Inputs: (a) pseudo_toroidal_cover of every admissible 3-dimensional symbol of size <= M that has one and of the 20 corpus symbols; (b) manifold tilings with finite fundamental group: universal covers and central quotients of the Coxeter groups [3,3,3], [4,3,3] ([3,4,3] thorough) built by the reference Todd-Coxeter, every entry of covers(s, |G|) for {3,3,3} ({4,3,3} thorough) that the reference model accepts as a branch-free manifold tiling, and the manifold entries of covers(s, |G|) for EVERY 3-dimensional symbol of size <= 2 with spherical tiles and vertex figures (branching 1..6) whose orbifold group has order <= 200 (thorough 1200) by the reference Todd-Coxeter (lens spaces and other space forms); (c) each input under 9 systematic renumberings. Oracle: input validity by the reference model (complete, branch-free, commuting, every tile and vertex figure loopless, bipartite, V-E+F = 2); a returned D-set is valid in the same sense; for (b) and corpus covers a connected result has the same H1 (textbook presentation + invariant factors) and the same number of subgroup classes of index 2, 3 (crate presentation + coset_tables, validated by C09/C12) as the input; on pseudo-toroidal covers no panic, a connected result has one tile, one vertex and no edge/face/tile of degree 2; for the corpus the isomorphism class of the minimal quotient of the result (reference model) is the same for every renumbering and schedule. Non-trivial = simplify changes the input.",
        assumptions: &["the choice hook explores exactly the behaviours production code can show: every hash order makes one of the sorted candidates first, and every candidate is first for some order", "pseudo_toroidal_cover / covers supply inputs only; every input is validated by the reference model before use"],
        bounds: |t| json!({"admissible_max_size": t.pick(3, 4), "choice_deviation_bound": 1, "choice_deviation_bound_2_on_inputs_up_to_chambers": t.pick(json!(24), json!("72, and 96 for the corpus covers as given")), "renumberings": t.pick(json!({"corpus": "identity + reverse at bound 1", "other pseudo-toroidal covers": "identity at bound 1, reverse at bound 0", "finite": "identity + shuffle at bound 1"}), json!(9)), "determinism_replay_every_nth_schedule": t.pick(5, 1), "subgroup_class_index": 3, "torus_cover_family": {"what": "2-sheeted covers of the pseudo-toroidal cover of every corpus symbol, default schedule", "max_chambers": t.pick(800, 2400)}}),
    }
}

type SimpOut = Result<Option<RS>, String>;

fn run_simplify(input: &RS) -> SimpOut {
    let cs = to_partial_dsym(input);
    match crate::engine::in_subject(|| std::panic::catch_unwind(std::panic::AssertUnwindSafe(|| simplify(&cs).map(|o| from_dsym(&o))))) {
        Err(e) => Err(format!("panic: {}", panic_message(&e))),
        Ok(None) => Ok(None),
        Ok(Some(None)) => Err("result is not complete".into()),
        Ok(Some(Some(o))) => Ok(Some(o)),
    }
}

/// number of subgroup classes of index 2 and 3 via the crate's presentation and low-index enumeration
fn subgroup_profile(s: &RS) -> Option<Vec<usize>> {
    let r = std::panic::catch_unwind(std::panic::AssertUnwindSafe(|| {
        let fg = fundamental_group(&to_partial_dsym(s));
        let ng = fg.nr_generators();
        if ng > 40 {
            return None;
        }
        let mut by = vec![0usize; 4];
        for t in coset_tables(ng, &fg.relators, 3) {
            by[t.len()] += 1;
        }
        Some(by[1..].to_vec())
    }));
    r.ok().flatten()
}

struct Input {
    name: String,
    s: RS,
    /// (H1, subgroup classes per index 1..3) known by construction (covers of the 3-torus): used instead of
    /// computing them on inputs of many hundred chambers
    known: Option<(Vec<i128>, Vec<usize>)>,
    /// pseudo-toroidal cover of an admissible symbol
    ptc: bool,
    /// group known to be finite, or cover of a corpus symbol: topology must be preserved
    rigid: bool,
    corpus: bool,
}

fn check_output(ctx: &mut Ctx, case: &Value, inp: &Input, out: &RS, weight: u64, h1_in: &Option<Vec<i128>>, prof_in: &Option<Vec<usize>>) -> Option<RS> {
    if let Err(e) = valid_manifold_tiling(out) {
        ctx.violation("invalid-result", case.clone(), format!("simplify returned {} chambers: {}", out.n, e), weight);
        return None;
    }
    let connected = out.is_connected();
    if inp.ptc && connected {
        let tiles = out.components(&[0, 1, 2]).len();
        let verts = out.components(&[1, 2, 3]).len();
        let deg2 = (0..3).any(|i| (0..out.n).any(|d| out.r(i, i + 1, d) == 2));
        if tiles != 1 || verts != 1 || deg2 {
            ctx.violation("not-reduced", case.clone(), format!("connected result with {} chambers has {} tiles, {} vertices, degree-2 element: {}", out.n, tiles, verts, deg2), weight);
            return None;
        }
    }
    if inp.rigid && connected {
        if let (Some(hi), Some(ho)) = (h1_in, h1(out)) {
            if *hi != ho {
                ctx.violation("homology-changed", case.clone(), format!("input has H1 {:?}, result has {:?}", hi, ho), weight);
                return None;
            }
        }
        if let (Some(pi), Some(po)) = (prof_in, subgroup_profile(out)) {
            if *pi != po {
                ctx.violation("subgroup-profile-changed", case.clone(), format!("subgroup classes per index 1..3: input {:?}, result {:?}", pi, po), weight);
                return None;
            }
        }
    }
    if connected {
        Some(out.minimal_quotient().iso_key_bfs())
    } else {
        None
    }
}

/// the renumberings of one input that the tier explores
fn renumberings_for(inp: &Input, tier: Tier) -> Vec<(String, Vec<usize>)> {
    let all = systematic_renumberings(inp.s.n);
    if tier.is_thorough() {
        if inp.name.contains("the dual of corpus") {
            // (all 9 renumberings of the 15 duals at bound 1 take 26 minutes on 16 cores and showed nothing)
            return all.into_iter().filter(|(n, _)| ["identity", "reverse", "shuffle-in"].contains(&n.as_str())).collect();
        }
        return all;
    }
    // (quick tier: the duals of the corpus in the numbering the crate produces only)
    let keep: &[&str] = if inp.name.contains("the dual of corpus") { &["identity"] } else if inp.corpus || inp.ptc { &["identity", "reverse"] } else { &["identity", "shuffle-in"] };
    all.into_iter().filter(|(n, _)| keep.contains(&n.as_str())).collect()
}

/// isomorphism class of the minimal quotient of simplify's result under the default schedule on the input as given
fn reference_key(inp: &Input) -> Option<RS> {
    match run_simplify(&inp.s) {
        Ok(Some(out)) if out.is_connected() => Some(out.minimal_quotient().iso_key_bfs()),
        _ => None,
    }
}

fn check_unit(ctx: &mut Ctx, inp: &Input, rname: &str, p: &[usize], ref_key: &Option<RS>) {
    check_unit_bound(ctx, inp, rname, p, ref_key, None)
}

fn check_unit_bound(ctx: &mut Ctx, inp: &Input, rname: &str, p: &[usize], ref_key: &Option<RS>, force_bound: Option<usize>) {
    let t = inp.s.relabel(p);
    ctx.announce(&json!({"input": inp.name, "renumbering": rname, "chambers": t.n}));
    let weight = t.n as u64;
    if valid_manifold_tiling(&t).is_err() {
        ctx.add("inputs_rejected_by_reference_model", 1);
        return;
    }
    let h1_in = if let Some(k) = &inp.known { Some(k.0.clone()) } else if inp.rigid { h1(&t) } else { None };
    let prof_in = if let Some(k) = &inp.known { Some(k.1.clone()) } else if inp.rigid { subgroup_profile(&t) } else { None };
    // quick tier: the second renumbering of a non-corpus pseudo-toroidal cover is run under the default schedule only
    let b2max = std::env::var("VERIF_C16_B2MAX").ok().and_then(|v| v.parse::<usize>().ok()).unwrap_or(ctx.tier.pick(24, 72));
    let bound = if t.n <= b2max || (ctx.tier.is_thorough() && t.n <= 96 && inp.corpus && rname == "identity") { 2 } else if !ctx.tier.is_thorough() && inp.ptc && !inp.corpus && rname != "identity" { 0 } else { 1 };
    let bound = force_bound.unwrap_or(bound);
    let mut results: Vec<(Vec<usize>, SimpOut)> = vec![];
    let verify_every = ctx.tier.pick(5, 1);
    let stats = g3::explore_with(bound, verify_every, &|| run_simplify(&t), &mut |run| {
        results.push((run.schedule.clone(), run.result.clone()));
    });
    ctx.evaluations += stats.runs;
    ctx.states += stats.runs;
    ctx.transitions += stats.runs;
    ctx.traces += stats.runs;
    if let Some(sch) = &stats.result_diverged {
        let scase = json!({"input": inp.name, "renumbering": rname, "set": rs_to_json(&t)["ops"], "schedule": sch});
        ctx.violation("history-dependent", scase, "simplify returned two different results for the same input under the same schedule of its choice point: the result depends on the call history".into(), weight);
        return;
    }
    if let Some(why) = &stats.unreplayable {
        ctx.add("inputs_not_replayable", 1);
        ctx.cap_hit(format!("G3 could not enumerate deviations for {} ({}): {}; only the schedules visited before count", inp.name, rname, why));
    }
    ctx.add(&format!("schedules_bound{}_chambers{:04}", bound, t.n), stats.runs as i64);
    ctx.max("choice_points_max", stats.choice_points_max as i64);
    ctx.max("alternatives_max", stats.alternatives_max as i64);
    ctx.add("schedules_run", stats.runs as i64);
    let mut distinct: BTreeSet<Option<RS>> = BTreeSet::new();
    for (schedule, res) in &results {
        let scase = json!({"input": inp.name, "renumbering": rname, "set": rs_to_json(&t)["ops"], "schedule": schedule});
        match res {
            Err(m) => {
                ctx.violation("simplify-failed", scase, m.clone(), weight);
                return;
            }
            Ok(None) => {
                distinct.insert(None);
                if inp.corpus {
                    // the euclidicity test reads None as "lens space"; wrong for the cover of a known-euclidean symbol
                    ctx.violation("corpus-result", scase, "simplify returned None (empty) for the cover of a known-euclidean symbol".into(), weight);
                    return;
                }
            }
            Ok(Some(out)) => {
                if out.n < t.n {
                    ctx.nontrivial += 1;
                }
                let key = check_output(ctx, &scase, inp, out, weight, &h1_in, &prof_in);
                if ctx.nviolations() > 0 {
                    return;
                }
                distinct.insert(Some(out.clone()));
                if inp.corpus && key != *ref_key {
                    ctx.violation("corpus-key", scase, "the minimal quotient of the result is not isomorphic to the one obtained from the input as given under the default schedule".into(), weight);
                    return;
                }
            }
        }
    }
    ctx.max("distinct_results_per_input", distinct.len() as i64);
}

fn ptc_of(s: &RS) -> Option<RS> {
    std::panic::catch_unwind(std::panic::AssertUnwindSafe(|| pseudo_toroidal_cover(&to_partial_dsym(s)).and_then(|c| from_dsym(&c)))).ok().flatten()
}

pub fn coxeter_manifolds(tier: Tier) -> Vec<(String, RS)> {
    use crate::refmodel::groups::Tc;
    let mut out = vec![];
    let diagrams: Vec<(&str, Vec<usize>, usize)> = if tier.is_thorough() { vec![("[3,3,3]", vec![3, 3, 3], 5), ("[4,3,3]", vec![4, 3, 3], 8), ("[3,4,3]", vec![3, 4, 3], 12)] } else { vec![("[3,3,3]", vec![3, 3, 3], 5), ("[4,3,3]", vec![4, 3, 3], 8)] };
    for (name, ms, h) in diagrams {
        let ng = 4;
        let mut rels: Vec<Word> = vec![];
        for i in 0..ng {
            rels.push(vec![i as isize + 1, i as isize + 1]);
        }
        for i in 0..ng {
            for j in (i + 1)..ng {
                let m = if j == i + 1 { ms[i] } else { 2 };
                let mut w = vec![];
                for _ in 0..m {
                    w.push(i as isize + 1);
                    w.push(j as isize + 1);
                }
                rels.push(w);
            }
        }
        let mut subs: Vec<(String, Vec<Word>)> = vec![("1".into(), vec![])];
        if h % 2 == 0 {
            // the central inversion: (s0 s1 s2 s3)^(h/2)
            let mut w = vec![];
            for _ in 0..h / 2 {
                w.extend([1, 2, 3, 4]);
            }
            subs.push(("<w0>".into(), vec![w]));
        }
        for (hname, hgens) in subs {
            if let Some(a) = Tc::run(ng, &rels, &hgens, 60000) {
                let n = a.len();
                let ops: Vec<Vec<usize>> = (0..ng).map(|i| (0..n).map(|r| a.get(r, i as isize + 1)).collect()).collect();
                let s = RS::from_ops(ops);
                if valid_manifold_tiling(&s).is_ok() {
                    out.push((format!("{} / {}", name, hname), s));
                }
            }
        }
    }
    out
}

fn inputs(ctx: &mut Ctx) -> Vec<Input> {
    let tier = ctx.tier;
    let mut out = vec![];
    for (text, s) in corpus() {
        if let Some(c) = ptc_of(&s) {
            out.push(Input { name: format!("pseudo-toroidal cover of corpus symbol {}", text), s: c, ptc: true, rigid: true, corpus: true, known: None });
        }
    }
    // the duals of the corpus symbols (euclidean like their originals; a different tile/vertex structure goes into
    // the same simplification)
    for (text, s) in corpus() {
        let d = s.dual();
        if d.iso_key_bfs() == s.iso_key_bfs() {
            continue; // self-dual
        }
        if let Some(c) = ptc_of(&d) {
            out.push(Input { name: format!("pseudo-toroidal cover of the dual of corpus symbol {}", text), s: c, ptc: true, rigid: true, corpus: true, known: None });
        }
    }
    if std::env::var("VERIF_C16_ONLY_DUALS").is_ok() {
        out.retain(|i| i.name.contains("the dual of corpus"));
        return out;
    }
    for n in 1..=tier.pick(3, 4) {
        for s in admissible_symbols(n) {
            if let Some(c) = ptc_of(&s) {
                out.push(Input { name: format!("pseudo-toroidal cover of {}", s.describe()), s: c, ptc: true, rigid: false, corpus: false, known: None });
            }
        }
    }
    for (name, s) in coxeter_manifolds(tier) {
        out.push(Input { name: format!("Coxeter manifold {}", name), s, ptc: false, rigid: true, corpus: false, known: None });
    }
    // covers() of the regular polytope symbols that are manifolds
    let polytopes: Vec<(&str, usize)> = if tier.is_thorough() { vec![("<1.1:1 3:1,1,1,1:3,3,3>", 120), ("<1.1:1 3:1,1,1,1:4,3,3>", 384)] } else { vec![("<1.1:1 3:1,1,1,1:3,3,3>", 120)] };
    for (text, order) in polytopes {
        if let Ok(cs) = std::panic::catch_unwind(|| covers(&text.parse::<rust_dsymbols::dsyms::PartialDSym>().unwrap(), order)) {
            for c in cs {
                if let Some(r) = from_dsym(&c) {
                    if valid_manifold_tiling(&r).is_ok() {
                        out.push(Input { name: format!("{}-chamber manifold cover of {}", r.n, text), s: r, ptc: false, rigid: true, corpus: false, known: None });
                    }
                }
            }
        }
    }
    out
}

fn run(ctx: &mut Ctx) {
    let list = inputs(ctx);
    ctx.add("inputs", if ctx.shard == 0 { list.len() as i64 } else { 0 });
    let tier = ctx.tier;
    // units = (input, renumbering); the most expensive first so that they land on different workers
    let mut units: Vec<(usize, String, Vec<usize>)> = vec![];
    for (k, inp) in list.iter().enumerate() {
        for (rname, p) in renumberings_for(inp, tier) {
            units.push((k, rname, p));
        }
    }
    units.sort_by_key(|(k, rname, _)| {
        let inp = &list[*k];
        let full = inp.corpus || rname == "identity" || !inp.ptc || tier.is_thorough();
        std::cmp::Reverse(if full { inp.s.n * inp.s.n } else { inp.s.n })
    });
    if std::env::var("VERIF_LIST_UNITS").is_ok() {
        // diagnostic: the size profile of the work list (no exploration)
        if ctx.shard == 0 {
            let mut hist: std::collections::BTreeMap<usize, usize> = Default::default();
            for (k, _, _) in &units {
                *hist.entry(list[*k].s.n).or_default() += 1;
            }
            eprintln!("C16 units by chamber count: {:?}", hist);
        }
        return;
    }
    let mut ref_keys: Vec<Option<Option<RS>>> = vec![None; list.len()];
    for (k, rname, p) in units {
        if ctx.take() {
            let inp = &list[k];
            if ctx.want_sample() {
                ctx.sample(json!({"input": inp.name, "chambers": inp.s.n, "renumbering": rname}));
            }
            if ref_keys[k].is_none() {
                ref_keys[k] = Some(if inp.corpus { reference_key(inp) } else { None });
            }
            let t0 = std::time::Instant::now();
            let rk = ref_keys[k].clone().unwrap();
            check_unit(ctx, inp, &rname, &p, &rk);
            let fam = if inp.corpus { "corpus" } else if inp.ptc { "ptc" } else { "finite" };
            ctx.add(&format!("cpu_us_{}", fam), t0.elapsed().as_micros() as i64);
            ctx.add(&format!("cpu_ms_chambers{:04}", inp.s.n), t0.elapsed().as_millis() as i64);
        }
    }
    if ctx.nviolations() == 0 {
        let t0 = std::time::Instant::now();
        finite_family(ctx);
        ctx.add("cpu_us_finite_family", t0.elapsed().as_micros() as i64);
    }
    if ctx.nviolations() == 0 {
        let t0 = std::time::Instant::now();
        torus_cover_family(ctx);
        ctx.add("cpu_us_torus_cover_family", t0.elapsed().as_micros() as i64);
    }
    if ctx.nviolations() == 0 {
        let t0 = std::time::Instant::now();
        affine_family(ctx, &list);
        ctx.add("cpu_us_affine_family", t0.elapsed().as_micros() as i64);
    }
    if ctx.nviolations() == 0 && ctx.take() {
        recorded_torus_cover(ctx);
    }
}

/// family (e): irregular numberings.  The nine systematic renumberings keep long runs of consecutive chamber
/// numbers together; defect 21 (simplify losing a 3-torus) only showed under numberings that scatter them.  Every
/// corpus cover and every cover of a corpus dual is run under the affine renumberings d -> a d + b (mod n), a
/// coprime to n (the first K such a > 1 in steps that spread them over 1..n, b = 7 a + 3), default schedule:
/// validity, H1, subgroup profile, reducedness and the same minimal-quotient class as for the input as given.
fn affine_family(ctx: &mut Ctx, list: &[Input]) {
    fn gcd(a: usize, b: usize) -> usize {
        if b == 0 { a } else { gcd(b, a % b) }
    }
    let per = ctx.tier.pick(12usize, 120usize);
    for inp in list.iter().filter(|i| i.corpus) {
        let n = inp.s.n;
        let coprime: Vec<usize> = (2..n).filter(|&a| gcd(a, n) == 1).collect();
        if coprime.is_empty() {
            continue;
        }
        let step = (coprime.len() / per).max(1);
        let mut ref_key: Option<Option<RS>> = None;
        for &a in coprime.iter().step_by(step).take(per) {
            if !ctx.take() {
                continue;
            }
            if ref_key.is_none() {
                ref_key = Some(reference_key(inp));
            }
            let b = (7 * a + 3) % n;
            let p: Vec<usize> = (0..n).map(|d| (a * d + b) % n).collect();
            ctx.add("affine_units", 1);
            let known = Input { name: inp.name.clone(), s: inp.s.clone(), known: Some((vec![0, 0, 0], vec![1, 7, 13])), ptc: true, rigid: true, corpus: true };
            check_unit_bound(ctx, &known, &format!("affine {}d+{}", a, b), &p, ref_key.as_ref().unwrap(), Some(0));
            if ctx.nviolations() > 0 {
                return;
            }
        }
    }
}

/// family (d): the 2-sheeted covers of the pseudo-toroidal cover of every corpus symbol (3-tori again, of twice
/// the size: 200 to 1 200 chambers, larger than anything else the check feeds into simplify), under the default
/// schedule, as covers() numbers them [and reversed].  H1 = Z^3 and 1, 7, 13 classes of subgroups of index 1, 2,
/// 3 are known by construction.  Sharded by cover.
fn torus_cover_family(ctx: &mut Ctx) {
    let tier = ctx.tier;
    let cap = tier.pick(800usize, 2400usize);
    for (text, s) in corpus() {
        let c = match ptc_of(&s) {
            Some(c) => c,
            None => continue,
        };
        if 2 * c.n > cap {
            continue;
        }
        let list = ctx.supply("covers", || covers(&to_partial_dsym(&c), 2).iter().map(|x| from_dsym(x)).collect::<Vec<_>>());
        for (k, d) in list.into_iter().flatten().enumerate() {
            if d.n <= c.n || !ctx.take() {
                continue;
            }
            if valid_manifold_tiling(&d).is_err() || !d.is_connected() {
                ctx.add("torus_covers_rejected_by_reference_model", 1);
                continue;
            }
            ctx.add("torus_covers", 1);
            ctx.max("largest_input", d.n as i64);
            let inp = Input { name: format!("2-sheeted cover of the pseudo-toroidal cover of corpus symbol {} (number {} of covers(.., 2))", text, k), s: d, ptc: true, rigid: true, corpus: false, known: Some((vec![0, 0, 0], vec![1, 7, 13])) };
            let id: Vec<usize> = (0..inp.s.n).collect();
            check_unit_bound(ctx, &inp, "identity", &id, &None, Some(0));
            if tier.is_thorough() && ctx.nviolations() == 0 {
                let rev: Vec<usize> = (0..inp.s.n).rev().collect();
                check_unit_bound(ctx, &inp, "reverse", &rev, &None, Some(0));
            }
            if ctx.nviolations() > 0 {
                return;
            }
        }
    }
}

/// LAST: the recorded finding.  One fixed numbering of the pseudo-toroidal cover of the dual of the corpus symbol
/// 553.3 (a 3-torus, 192 chambers; /verif/data/c16_torus_cover_192.json) on which simplify returns None under
/// the default schedule, i.e. the euclidicity test would call a euclidean symbol a lens space.
fn recorded_torus_cover(ctx: &mut Ctx) {
    let path = std::path::Path::new(&verif_dir()).join("data").join("c16_torus_cover_192.json");
    let v: Value = match std::fs::read_to_string(&path).ok().and_then(|t| serde_json::from_str(&t).ok()) {
        Some(v) => v,
        None => {
            ctx.cap_hit(format!("{} is missing: the recorded 192-chamber input was NOT run", path.display()));
            return;
        }
    };
    let ops: Vec<Vec<usize>> = v["set"].as_array().map(|a| a.iter().map(|o| usize_list(o).into_iter().map(|x| x - 1).collect()).collect()).unwrap_or_default();
    if ops.len() != 4 {
        return;
    }
    let s = RS::from_ops(ops);
    let inp = Input { name: "pseudo-toroidal cover of the dual of corpus symbol <553.3:4 3:2 4,1 2 3 4,3 4,2 4:4 6,2 6,4> in the recorded numbering".into(), s, ptc: true, rigid: true, corpus: true, known: Some((vec![0, 0, 0], vec![1, 7, 13])) };
    // reference: the result for the same cover in the numbering the crate produces, default schedule
    let ref_key = corpus().into_iter().find(|(t, _)| t.starts_with("<553.3:")).and_then(|(_, s)| ptc_of(&s.dual())).and_then(|c| match run_simplify(&c) {
        Ok(Some(out)) if out.is_connected() => Some(out.minimal_quotient().iso_key_bfs()),
        _ => None,
    });
    if ref_key.is_none() {
        ctx.cap_hit("no reference result for the recorded 192-chamber input: it was NOT run".into());
        return;
    }
    let id: Vec<usize> = (0..inp.s.n).collect();
    // (the default schedule comes first, so an unrepaired tree reports exactly the recorded case)
    check_unit_bound(ctx, &inp, "identity", &id, &ref_key, Some(1));
    // the same defect under affine renumberings d -> a d + b of the same cover (found after the repair was written:
    // 6 of 30 000 such numberings of this cover lost the torus under the default schedule before the repair)
    if ctx.nviolations() == 0 {
        if let Some(c) = corpus().into_iter().find(|(t, _)| t.starts_with("<553.3:")).and_then(|(_, s)| ptc_of(&s.dual())) {
            let base = Input { name: "pseudo-toroidal cover of the dual of corpus symbol <553.3:4 3:2 4,1 2 3 4,3 4,2 4:4 6,2 6,4>".into(), s: c, ptc: true, rigid: true, corpus: true, known: Some((vec![0, 0, 0], vec![1, 7, 13])) };
            let n = base.s.n;
            for (a, b) in [(55usize, 34usize), (125, 96), (83, 119), (109, 190), (85, 170), (79, 121)] {
                let p: Vec<usize> = (0..n).map(|d| (a * d + b) % n).collect();
                check_unit_bound(ctx, &base, &format!("affine {}d+{}", a, b), &p, &ref_key, Some(if ctx.tier.is_thorough() { 1 } else { 0 }));
                if ctx.nviolations() > 0 {
                    return;
                }
            }
        }
    }
}

/// family (b'): manifold covers of every small 3-dimensional symbol with spherical tiles and vertex figures
/// whose orbifold group is finite (reference Todd-Coxeter on the textbook presentation): lens spaces and
/// other spherical space forms in the numbering `covers` produces.  Sharded by base symbol.
fn finite_family(ctx: &mut Ctx) {
    use crate::enumerate::symbols::for_each_branching;
    use crate::refmodel::groups::Tc;
    use crate::refmodel::pi1::textbook_pi1;
    let tier = ctx.tier;
    let cap = tier.pick(200usize, 1200usize);
    for n in 1..=2usize {
        for ops in dset_representatives3(n) {
            let mut bases: Vec<RS> = vec![];
            for_each_branching(&ops, &[1, 2, 3, 4, 5, 6], usize::MAX, &mut |s| {
                if components_spherical(s, 0) && components_spherical(s, 1) {
                    bases.push(s.clone());
                }
            });
            for b in bases {
                if !ctx.take() {
                    continue;
                }
                let tb = textbook_pi1(&b);
                let order = match Tc::run(tb.ngens, &tb.rels, &[], 40 * cap + 2000) {
                    Some(a) if a.len() <= cap => a.len(),
                    _ => continue,
                };
                ctx.announce(&json!({"input": "finite family", "base": rs_to_json(&b), "order": order}));
                let cs = match std::panic::catch_unwind(std::panic::AssertUnwindSafe(|| covers(&to_partial_dsym(&b), order))) {
                    Ok(c) => c,
                    Err(_) => continue, // C05's business
                };
                ctx.add("finite_bases", 1);
                for c in cs {
                    if let Some(r) = from_dsym(&c) {
                        if r.n >= 4 && valid_manifold_tiling(&r).is_ok() && r.is_connected() {
                            ctx.add("finite_manifold_covers", 1);
                            let inp = Input { name: format!("{}-chamber manifold cover of the finite-group symbol {}", r.n, b.describe()), s: r, ptc: false, rigid: true, corpus: false, known: None };
                            let id: Vec<usize> = (0..inp.s.n).collect();
                            check_unit(ctx, &inp, "identity", &id, &None);
                            if tier.is_thorough() {
                                let rev: Vec<usize> = (0..inp.s.n).rev().collect();
                                check_unit(ctx, &inp, "reverse", &rev, &None);
                            }
                            if ctx.nviolations() > 0 {
                                return;
                            }
                        }
                    }
                }
            }
        }
    }
}

fn replay(ctx: &mut Ctx, case: &Value) {
    // a recorded case names the D-set and the schedule
    let ops: Vec<Vec<usize>> = case["set"].as_array().map(|a| a.iter().map(|o| usize_list(o).into_iter().map(|x| x - 1).collect()).collect()).unwrap_or_default();
    if ops.is_empty() {
        return;
    }
    let s = RS::from_ops(ops);
    let name = case["input"].as_str().unwrap_or("replay").to_string();
    let corpus = name.contains("corpus");
    let ptc = name.contains("pseudo-toroidal");
    let torus = name.contains("2-sheeted cover of the pseudo-toroidal cover");
    let inp = Input { name, s: s.clone(), ptc, rigid: corpus || !ptc || torus, corpus, known: if torus { Some((vec![0, 0, 0], vec![1, 7, 13])) } else { None } };
    if let Some(sch) = case["schedule"].as_array() {
        let schedule: Vec<usize> = sch.iter().map(|x| x.as_u64().unwrap_or(0) as usize).collect();
        rust_dsymbols::verif_hooks::set_schedule(schedule.clone());
        let res = run_simplify(&s);
        let _ = rust_dsymbols::verif_hooks::take_trace();
        rust_dsymbols::verif_hooks::set_schedule(vec![]);
        ctx.count(true);
        ctx.ops(1);
        let h1_in = if inp.rigid { h1(&s) } else { None };
        let prof_in = if inp.rigid { subgroup_profile(&s) } else { None };
        match res {
            Err(m) => ctx.violation("simplify-failed", case.clone(), m, s.n as u64),
            Ok(None) => {
                if inp.corpus {
                    ctx.violation("corpus-result", case.clone(), "simplify returned None".into(), s.n as u64);
                }
            }
            Ok(Some(out)) => {
                check_output(ctx, case, &inp, &out, s.n as u64, &h1_in, &prof_in);
            }
        }
    } else {
        let rk = if inp.corpus { reference_key(&inp) } else { None };
        let id: Vec<usize> = (0..inp.s.n).collect();
        check_unit(ctx, &inp, "identity", &id, &rk);
    }
}
