//! C04 — minimal image, minimality test, automorphisms, morphism search.

use crate::engine::*;
use crate::enumerate::symbols::*;
use crate::refmodel::dsym::*;
use crate::util::*;
use rust_dsymbols::covers::covers;
use rust_dsymbols::derived::minimal_image;
use rust_dsymbols::dsets::DSet;
use rust_dsymbols::dsyms::{PartialDSym, SimpleDSym};
use serde_json::{json, Value};
use std::collections::BTreeSet;

pub fn spec() -> Spec {
    Spec {
        id: "C04",
        run,
        replay,
        nshards: |_| 16,
        case_cap_s: |t| t.pick(120, 900),
        rule: "one case per labeled connected commuting symbol; per case: minimal_image vs Moore refinement (size, verified morphism onto it, no proper quotient, isomorphic to the reference quotient), is_minimal, automorphisms as a set vs verified brute force, morphism(s, t, e) for t in {s, minimal image, harness-built 2-sheeted covers (both directions), every symbol of size <= 2} and every base image e, minimal images of covers(s, <=3). Non-trivial = size >= 2 and (non-minimal or has a non-identity automorphism).",
        assumptions: &["symbols are built through build_set/build_sym_using_vs (validated by C02)", "covers(s, k) is used only as a supply of covers; each is verified to be a covering by the reference model before use"],
        bounds: |t| json!({"dim1_max_size": 5, "dim2_max_size": t.pick(4, 5), "dim3_max_size": t.pick(3, 4), "V": [1,2,3], "dim3_size4_V": [1,2],
            "two_sheeted_cocycles": "all edge cocycles supported on <= 2 edges", "mid_family": {"dim2_sizes": [5, t.pick(10, 12)], "dim3_sizes": [4, 8], "V": [1,2,3], "max_branched_orbits": t.pick(1, 2), "uniform_degrees": "m(i,i+1) = lcm of orbit lengths everywhere; the same with one or two orbits at twice the value", "spread_assignments": "4 per D-set: all 2-orbits branched with all-distinct values (ascending, descending), period 2, period 3", "coxeter_symbols_max_chambers": t.pick(384, 1152), "renumberings": ["reverse", "shuffle-in"]}, "crate_covers_max_sheets": 3, "crate_covers_on_sizes_up_to": t.pick(3, 4)}),
    }
}

fn to1(f: &[usize]) -> Vec<usize> {
    let mut v = vec![0];
    v.extend(f.iter().map(|x| x + 1));
    v
}

/// all connected 2-sheeted covers obtained from edge cocycles supported on <= 2 edges
pub fn two_sheeted_covers(s: &RS) -> Vec<RS> {
    let mut edges = vec![];
    for i in 0..=s.dim() {
        for d in 0..s.n {
            if s.ops[i][d] >= d {
                edges.push((i, d));
            }
        }
    }
    let mut out: BTreeSet<RS> = BTreeSet::new();
    let mut supports: Vec<Vec<(usize, usize)>> = vec![];
    for a in 0..edges.len() {
        supports.push(vec![edges[a]]);
        for b in (a + 1)..edges.len() {
            supports.push(vec![edges[a], edges[b]]);
        }
    }
    for sup in supports {
        let shift = |i: usize, d: usize, sh: usize| -> usize {
            let e = s.ops[i][d];
            if sup.contains(&(i, d.min(e))) {
                sh ^ 1
            } else {
                sh
            }
        };
        let c = s.cover_by(2, &shift);
        // a covering of the symbol: adjacent degrees divide (v > 0) and distant operations still commute
        if c.v.iter().all(|r| r.iter().all(|&x| x > 0)) && c.is_connected() && c.commutes() {
            out.insert(c);
        }
    }
    out.into_iter().collect()
}

fn small_targets(dim: usize) -> Vec<RS> {
    let mut out = vec![];
    for n in 1..=2 {
        for_each_connected_symbol(dim, n, &[1, 2, 3], usize::MAX, &mut |t| out.push(t.clone()));
    }
    out
}

fn check_morphisms(ctx: &mut Ctx, case: &Value, s: &RS, cs: &PartialDSym, t: &RS, what: &str) {
    let w = s.n as u64;
    let ct = match ctx.guard(|| to_partial_dsym(t)) {
        Ok(x) => x,
        Err(_) => return,
    };
    for e in 1..=t.n {
        ctx.ops(1);
        // symbols of different dimension have different sets of operations: no map commutes with "all" of them
        let exp = if s.dim() != t.dim() { None } else { s.morphism_from(t, e - 1).map(|f| to1(&f)) };
        match ctx.guard(|| cs.morphism(&ct, e)) {
            Ok(got) => {
                if got != exp {
                    ctx.violation(
                        "morphism",
                        case.clone(),
                        format!("morphism(s -> {} [{}], 1 -> {}) = {:?}, expected {:?}", what, t.describe(), e, got, exp),
                        w,
                    );
                }
            }
            Err(m) => ctx.violation("panic:morphism", case.clone(), format!("morphism to {} with image {}: {}", what, e, m), w),
        }
    }
}

fn check_one(ctx: &mut Ctx, s: &RS, small: &[RS]) {
    check_sym(ctx, "labeled", s, small, true);
}

/// `full`: also the harness-built 2-sheeted covers, the small targets and the crate's covers (small symbols only)
fn check_sym(ctx: &mut Ctx, family: &str, s: &RS, small: &[RS], full: bool) {
    let case = json!({"family": family, "sym": rs_to_json(s)});
    ctx.announce(&case);
    let w = s.n as u64;
    let k = s.nr_congruence_classes();
    let auts = s.automorphisms();
    ctx.count(s.n >= 2 && (k < s.n || auts.len() > 1));
    if ctx.want_sample() && s.n >= 3 && k < s.n {
        ctx.sample(case.clone());
    }
    let cs = match ctx.guard(|| to_partial_dsym(s)) {
        Ok(x) => x,
        Err(m) => {
            ctx.violation("panic:build", case, m, w);
            return;
        }
    };
    // minimal image
    ctx.ops(3);
    let refq = s.minimal_quotient();
    let mi = match ctx.guard(|| {
        let sd: SimpleDSym = cs.clone().into();
        (from_dsym(&minimal_image(&cs)), cs.is_minimal(), sd.is_minimal(), from_dsym(&minimal_image(&sd)))
    }) {
        Ok((Some(mi), ismin, ismin2, Some(mi2))) => {
            if ismin != (k == s.n) || ismin2 != ismin {
                ctx.violation("is_minimal", case.clone(), format!("is_minimal = {}/{} but the coarsest congruence has {} classes on {} chambers", ismin, ismin2, k, s.n), w);
            }
            if mi2 != mi {
                ctx.violation("representation", case.clone(), "minimal_image differs between PartialDSym and SimpleDSym".into(), w);
            }
            Some(mi)
        }
        Ok(_) => {
            ctx.violation("incomplete", case.clone(), "minimal_image is not a complete symbol".into(), w);
            None
        }
        Err(m) => {
            ctx.violation("panic:minimal_image", case.clone(), m, w);
            None
        }
    };
    if let Some(mi) = &mi {
        let mut why = vec![];
        if valid_symbol(mi).is_err() || !mi.is_connected() {
            why.push("not a valid connected symbol".to_string());
        } else {
            if mi.n != k {
                why.push(format!("has {} chambers, coarsest congruence has {} classes", mi.n, k));
            }
            if s.morphisms(mi).is_empty() {
                why.push("no op-commuting degree-preserving map from the input onto it".into());
            }
            if mi.nr_congruence_classes() != mi.n {
                why.push("admits a proper quotient".into());
            }
            if mi.n <= 7 && refq.n == mi.n && mi.iso_key_bfs() != refq.iso_key_bfs() {
                why.push("not isomorphic to the reference quotient".into());
            }
        }
        if !why.is_empty() {
            ctx.violation("minimal_image", case.clone(), format!("minimal_image = {}: {}", mi.describe(), why.join("; ")), w);
        }
    }
    // automorphisms
    ctx.ops(1);
    match ctx.guard(|| cs.automorphisms()) {
        Ok(got) => {
            let exp: BTreeSet<Vec<usize>> = auts.iter().map(|f| to1(f)).collect();
            let gs: BTreeSet<Vec<usize>> = got.iter().cloned().collect();
            if gs != exp || gs.len() != got.len() {
                ctx.violation("automorphisms", case.clone(), format!("automorphisms() has {} entries ({} distinct), expected {}: got {:?}", got.len(), gs.len(), exp.len(), got), w);
            }
        }
        Err(m) => ctx.violation("panic:automorphisms", case.clone(), m, w),
    }
    // morphism search
    check_morphisms(ctx, &case, s, &cs, s, "itself");
    if let Some(mi) = &mi {
        if valid_symbol(mi).is_ok() {
            check_morphisms(ctx, &case, s, &cs, mi, "minimal image");
        }
    }
    check_morphisms(ctx, &case, s, &cs, &refq, "reference quotient");
    if !full {
        return;
    }
    let covs = two_sheeted_covers(s);
    for c in &covs {
        check_morphisms(ctx, &case, s, &cs, c, "2-sheeted cover");
        // and from the cover down to the base
        if let Ok(cc) = ctx.guard(|| to_partial_dsym(c)) {
            check_morphisms(ctx, &case, c, &cc, s, "base of 2-sheeted cover");
            // a symbol and its cover have isomorphic minimal images
            ctx.ops(1);
            match ctx.guard(|| from_dsym(&minimal_image(&cc))) {
                Ok(Some(mc)) => {
                    if valid_symbol(&mc).is_err() || !mc.is_connected() || mc.n != refq.n || mc.iso_key_bfs() != refq.iso_key_bfs() {
                        ctx.violation("cover-minimal-image", case.clone(), format!("2-sheeted cover {} has minimal image {}, base has {}", c.describe(), mc.describe(), refq.describe()), w);
                    }
                }
                Ok(None) => ctx.violation("incomplete", case.clone(), "minimal_image of a cover is incomplete".into(), w),
                Err(m) => ctx.violation("panic:minimal_image", case.clone(), format!("on 2-sheeted cover {}: {}", c.describe(), m), w),
            }
        }
    }
    ctx.add("two_sheeted_covers", covs.len() as i64);
    for t in small {
        if t.dim() == s.dim() || (s.n <= 2 && t.n <= 2) {
            check_morphisms(ctx, &case, s, &cs, t, if t.dim() == s.dim() { "small symbol" } else { "small symbol of another dimension" });
        }
    }
    // covers from the crate (supply only; verified to be coverings before use)
    if s.n <= ctx.tier.pick(3, 4) {
        if let Ok(cv) = ctx.guard(|| covers(&cs, 3)) {
            for c in cv {
                if let Some(rc) = from_dsym(&c) {
                    if valid_symbol(&rc).is_ok() && rc.covers(s).is_some() {
                        ctx.ops(1);
                        ctx.add("crate_covers_used", 1);
                        match ctx.guard(|| from_dsym(&minimal_image(&c))) {
                            Ok(Some(mc)) => {
                                if valid_symbol(&mc).is_err() || !mc.is_connected() || mc.n != refq.n || mc.iso_key_bfs() != refq.iso_key_bfs() {
                                    ctx.violation("cover-minimal-image", case.clone(), format!("cover {} has minimal image {}, base has {}", rc.describe(), mc.describe(), refq.describe()), w);
                                }
                            }
                            Ok(None) => ctx.violation("incomplete", case.clone(), "minimal_image of a cover is incomplete".into(), w),
                            Err(m) => ctx.violation("panic:minimal_image", case.clone(), format!("on cover {}: {}", rc.describe(), m), w),
                        }
                    }
                }
            }
        }
    }
}

/// mid-size and large symbols: one representative per class of D-sets from the generator (sizes 5-9 [10] in
/// dimension 2, 4-6 [7] in dimension 3) with few branched orbits, each also under two systematic renumberings
/// (minimal image and number of automorphisms must not depend on the numbering), and the Coxeter coset symbols
/// (up to 120 [384] chambers; large automorphism groups, minimal images with one or a few chambers)
fn plain_r(ops: &Vec<Vec<usize>>, i: usize, d: usize) -> usize {
    let mut e = d;
    let mut r = 0;
    loop {
        e = ops[i + 1][ops[i][e]];
        r += 1;
        if e == d {
            return r;
        }
    }
}

fn mid_family(ctx: &mut Ctx) {
    use rust_dsymbols::dsets::DSet;
    use rust_dsymbols::generators::dset_generators::DSets;
    let tier = ctx.tier;
    let mut symbols: Vec<RS> = vec![];
    for (dim, lo, hi, maxb) in [(2usize, 5usize, tier.pick(10, 12), tier.pick(1, 2)), (3, 4, 8, 1)] {
        let sets = ctx.supply("DSets::new", || DSets::new(dim, hi).filter(|d| d.size() >= lo).collect::<Vec<_>>());
        for ds in sets {
            if let Some(plain) = from_dset(&ds) {
                if plain.is_involutive() && plain.is_connected() && plain.commutes() {
                    for_each_branching(&plain.ops, &[1, 2, 3], maxb, &mut |s| symbols.push(s.clone()));
                    // spread assignments: every 2-orbit branched, neighbouring orbits with different values
                    // (all distinct: the symbol is rigid, a wrongly merged pair of chambers always shows; period 2
                    // and 3: many chambers agree on some degrees and differ on others)
                    let orbs = two_orbits(&plain.ops);
                    for pattern in 0..4usize {
                        let mut v = vec![vec![0; plain.n]; dim];
                        for (k, (i, mem)) in orbs.iter().enumerate() {
                            let val = match pattern {
                                0 => k + 2,
                                1 => orbs.len() - k + 1,
                                2 => 1 + k % 2,
                                _ => 1 + (k + *i) % 3,
                            };
                            for &d in mem {
                                v[*i][d] = val;
                            }
                        }
                        symbols.push(RS { n: plain.n, ops: plain.ops.clone(), v });
                    }
                    // uniform degrees: m(i, i+1) = lcm of the orbit lengths on every chamber (as in a regular
                    // tiling), so that the degrees never stop a fold and the coarsest congruence is decided by the
                    // operations alone; then the same with one orbit, or two orbits of the same index pair,
                    // at twice that value (dimension 3: two orbits anywhere)
                    fn gcd(a: usize, b: usize) -> usize { if b == 0 { a } else { gcd(b, a % b) } }
                    let mut l = vec![1usize; dim];
                    for (i, mem) in &orbs {
                        let r = plain_r(&plain.ops, *i, mem[0]);
                        l[*i] = l[*i] / gcd(l[*i], r) * r;
                    }
                    let base: Vec<usize> = orbs.iter().map(|(i, mem)| l[*i] / plain_r(&plain.ops, *i, mem[0])).collect();
                    let mut emit = |dev: &[usize]| {
                        let mut v = vec![vec![0; plain.n]; dim];
                        for (k, (i, mem)) in orbs.iter().enumerate() {
                            let val = if dev.contains(&k) { 2 * base[k] } else { base[k] };
                            for &d in mem {
                                v[*i][d] = val;
                            }
                        }
                        symbols.push(RS { n: plain.n, ops: plain.ops.clone(), v });
                    };
                    emit(&[]);
                    for a in 0..orbs.len() {
                        emit(&[a]);
                        for b in (a + 1)..orbs.len() {
                            if dim == 3 || orbs[a].0 == orbs[b].0 {
                                emit(&[a, b]);
                            }
                        }
                    }
                }
            }
        }
    }
    for (_, c) in coxeter_symbols(tier.pick(384, 1152)) {
        if c.n >= 6 {
            symbols.push(c);
        }
    }
    for s in symbols {
        if !ctx.take() {
            continue;
        }
        check_sym(ctx, "mid", &s, &[], false);
        if ctx.nviolations() > 0 {
            return;
        }
        // numbering independence
        let k = s.nr_congruence_classes();
        let nauts = s.automorphisms().len();
        let key = s.minimal_quotient().iso_key_bfs();
        let rn = systematic_renumberings(s.n);
        for (rname, p) in rn.iter().filter(|(n, _)| n == "reverse" || n == "shuffle-in") {
            let t = s.relabel(p);
            let tcase = json!({"family": "mid", "sym": rs_to_json(&t), "renumbering": rname});
            ctx.announce(&tcase);
            ctx.ops(2);
            match ctx.guard(|| {
                let ct = to_partial_dsym(&t);
                (from_dsym(&minimal_image(&ct)), ct.automorphisms().len(), ct.is_minimal())
            }) {
                Ok((Some(mi), na, ismin)) => {
                    if valid_symbol(&mi).is_err() || !mi.is_connected() || mi.n != k || mi.iso_key_bfs() != key {
                        ctx.violation("minimal_image", tcase.clone(), format!("minimal_image = {} under this numbering, the reference quotient is {}", mi.describe(), key.describe()), s.n as u64);
                    }
                    if na != nauts {
                        ctx.violation("automorphisms", tcase.clone(), format!("{} automorphisms under this numbering, {} exist", na, nauts), s.n as u64);
                    }
                    if ismin != (k == s.n) {
                        ctx.violation("is_minimal", tcase.clone(), format!("is_minimal = {} but the coarsest congruence has {} classes on {} chambers", ismin, k, s.n), s.n as u64);
                    }
                }
                Ok((None, _, _)) => ctx.violation("incomplete", tcase, "minimal_image is not a complete symbol".into(), s.n as u64),
                Err(m) => ctx.violation("panic:minimal_image", tcase, m, s.n as u64),
            }
        }
    }
}

fn run(ctx: &mut Ctx) {
    let tier = ctx.tier;
    let mut fams: Vec<(usize, usize, Vec<usize>)> = vec![];
    for n in 1..=5 {
        fams.push((1, n, vec![1, 2, 3]));
    }
    for n in 1..=tier.pick(4, 5) {
        fams.push((2, n, vec![1, 2, 3]));
    }
    for n in 1..=3 {
        fams.push((3, n, vec![1, 2, 3]));
    }
    if tier.is_thorough() {
        fams.push((3, 4, vec![1, 2]));
    }
    let small: Vec<RS> = (1..=3).flat_map(small_targets).collect();
    for (dim, n, vals) in fams {
        for_each_connected_symbol(dim, n, &vals, usize::MAX, &mut |s| {
            if ctx.take() {
                check_one(ctx, s, &small);
            }
        });
    }
    if ctx.nviolations() == 0 {
        mid_family(ctx);
    }
}

fn replay(ctx: &mut Ctx, case: &Value) {
    if let Some(s) = rs_from_json(&case["sym"]) {
        let small: Vec<RS> = (1..=3).flat_map(small_targets).collect();
        check_one(ctx, &s, &small);
    }
}
