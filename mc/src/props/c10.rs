//! C10 — free words behave as reduced elements of a free group.

use crate::engine::*;
use crate::util::*;
use rust_dsymbols::fpgroups::free_words::{relator_permutations, relator_representative, FreeWord};
use serde_json::{json, Value};
use stateright::{Checker, Model, Property};
use std::collections::BTreeSet;

pub fn spec() -> Spec {
    Spec {
        id: "C10",
        run,
        replay,
        nshards: |_| 16,
        case_cap_s: |t| t.pick(300, 3600),
        rule: "layer 'step': from FreeWord::new/from of EVERY raw letter sequence of length <= 4 over {0,+-1,+-2,+-3}, every single action of the full menu (product in 7 operand forms incl. in-place with every reduced word of length <= 3, inverse, powers -3..3, commutator with words <= 2, rotations -2..len+1); layer 'hist' (stateright BFS): all histories of mixed operations from the empty word to a depth, state = observed letter vector; layer 'axioms': group axioms on all triples of words <= 2, order axioms on all triples of words <= 3 over 2 generators, <= 2 over 3 generators and some with generator indices up to 12; layer 'relators': representative/permutation set of every word <= L. Oracle = naive free reduction to a fixpoint on Vec<isize>. Non-trivial = some cancellation happens in the operation.",
        assumptions: &[],
        bounds: |t| json!({"step_raw_len": 4, "step_operand_len": 3, "hist_depth": t.pick(5, 6), "axiom_triples_len": 2, "order_triples_len": 3,
            "relator_len_2gens": t.pick(10, 14), "relator_len_3gens": t.pick(8, 10), "relator_len_4gens": t.pick(6, 8)}),
    }
}

// --- R3: the boring reference -----------------------------------------------------------

pub fn reduce(w: &[isize]) -> Vec<isize> {
    let mut v: Vec<isize> = w.iter().cloned().filter(|&x| x != 0).collect();
    loop {
        let mut changed = false;
        let mut i = 0;
        while i + 1 < v.len() {
            if v[i] == -v[i + 1] {
                v.drain(i..i + 2);
                changed = true;
            } else {
                i += 1;
            }
        }
        if !changed {
            return v;
        }
    }
}

pub fn inv(w: &[isize]) -> Vec<isize> {
    w.iter().rev().map(|x| -x).collect()
}

fn cat(parts: &[&[isize]]) -> Vec<isize> {
    let mut v = vec![];
    for p in parts {
        v.extend_from_slice(p);
    }
    v
}

fn pow_ref(w: &[isize], k: isize) -> Vec<isize> {
    let base = if k < 0 { inv(w) } else { w.to_vec() };
    let mut r = vec![];
    for _ in 0..k.abs() {
        r.extend_from_slice(&base);
    }
    reduce(&r)
}

fn rot_ref(w: &[isize], i: isize) -> Vec<isize> {
    let n = w.len() as isize;
    if n == 0 {
        return vec![];
    }
    let k = i.rem_euclid(n) as usize;
    reduce(&cat(&[&w[k..], &w[..k]]))
}

fn is_reduced(w: &[isize]) -> bool {
    !w.contains(&0) && w.windows(2).all(|p| p[0] != -p[1])
}

fn letters(w: &FreeWord) -> Vec<isize> {
    w.iter().cloned().collect()
}

/// all sequences over `alphabet` of length <= maxlen, shortest first
fn sequences(alphabet: &[isize], maxlen: usize) -> Vec<Vec<isize>> {
    let mut out = vec![vec![]];
    let mut frontier: Vec<Vec<isize>> = vec![vec![]];
    for _ in 0..maxlen {
        let mut next = vec![];
        for s in &frontier {
            for &x in alphabet {
                let mut t = s.clone();
                t.push(x);
                next.push(t);
            }
        }
        out.extend(next.iter().cloned());
        frontier = next;
    }
    out
}

fn reduced_words(gens: usize, maxlen: usize) -> Vec<Vec<isize>> {
    let mut alphabet = vec![];
    for g in 1..=gens as isize {
        alphabet.push(g);
        alphabet.push(-g);
    }
    sequences(&alphabet, maxlen).into_iter().filter(|w| is_reduced(w)).collect()
}

/// streams every freely reduced word over `gens` generators of length 1..=maxlen that uses the LAST
/// generator when `need_last` (so that families over 2, 3, 4 generators do not repeat each other)
fn for_each_reduced_word(gens: usize, maxlen: usize, need_last: bool, f: &mut dyn FnMut(&[isize])) {
    fn rec(gens: isize, maxlen: usize, need_last: bool, w: &mut Vec<isize>, f: &mut dyn FnMut(&[isize])) {
        if !w.is_empty() && (!need_last || w.iter().any(|x| x.abs() == gens)) {
            f(w);
        }
        if w.len() == maxlen {
            return;
        }
        for g in 1..=gens {
            for x in [g, -g] {
                if w.last() != Some(&-x) {
                    w.push(x);
                    rec(gens, maxlen, need_last, w, f);
                    w.pop();
                }
            }
        }
    }
    rec(gens as isize, maxlen, need_last, &mut vec![], f);
}

// --- layer 'step' -----------------------------------------------------------------------

fn expect(ctx: &mut Ctx, case: &Value, what: &str, got: Result<Vec<isize>, String>, exp: &[isize], weight: u64) {
    ctx.ops(1);
    match got {
        Ok(g) => {
            if g != exp {
                let kind = if !is_reduced(&g) { "not-reduced" } else { "wrong-value" };
                ctx.violation(kind, json!({"layer": "step", "start": case["start"], "action": what}), format!("{} = {:?}, expected {:?}", what, g, exp), weight);
            }
        }
        Err(m) => ctx.violation("panic", json!({"layer": "step", "start": case["start"], "action": what}), format!("{} panicked: {}", what, m), weight),
    }
}

fn step_case(ctx: &mut Ctx, raw: &[isize], operands3: &[Vec<isize>], operands2: &[Vec<isize>], only_action: Option<&str>) {
    let case = json!({"layer": "step", "start": raw});
    ctx.announce(&case);
    let start = reduce(raw);
    ctx.count(start.len() < raw.len() || !start.is_empty());
    let w = raw.len() as u64;
    let want = |a: &str| only_action.map_or(true, |o| o == a);
    if want("new") {
        let g = ctx.guard(|| letters(&FreeWord::new(raw.iter().cloned())));
        expect(ctx, &case, "new", g, &start, w);
    }
    if want("from") {
        let g = ctx.guard(|| letters(&FreeWord::from(raw.to_vec())));
        expect(ctx, &case, "from", g, &start, w);
    }
    let a = match ctx.guard(|| FreeWord::new(raw.iter().cloned())) {
        Ok(a) => a,
        Err(_) => return,
    };
    if letters(&a) != start {
        return; // already reported; every further comparison would repeat it
    }
    if want("inverse") {
        let g = ctx.guard(|| letters(&a.inverse()));
        expect(ctx, &case, "inverse", g, &inv(&start), w);
    }
    if want("index") {
        ctx.ops(1);
        match ctx.guard(|| (0..a.len()).map(|i| a[i]).collect::<Vec<isize>>()) {
            Ok(v) => {
                if v != start {
                    ctx.violation("wrong-value", json!({"layer": "step", "start": raw, "action": "index"}), format!("letters by index = {:?}, expected {:?}", v, start), w);
                }
            }
            Err(m) => ctx.violation("panic", json!({"layer": "step", "start": raw, "action": "index"}), m, w),
        }
    }
    if want("len") {
        ctx.ops(1);
        if a.len() != start.len() {
            ctx.violation("wrong-value", json!({"layer": "step", "start": raw, "action": "len"}), format!("len = {}", a.len()), w);
        }
    }
    for k in -3..=3isize {
        let name = format!("raised_to({})", k);
        if want(&name) {
            let g = ctx.guard(|| letters(&a.raised_to(k)));
            expect(ctx, &case, &name, g, &pow_ref(&start, k), w);
        }
    }
    for i in -2..=(start.len() as isize + 1) {
        let name = format!("rotated({})", i);
        if want(&name) {
            let g = ctx.guard(|| letters(&a.rotated(i)));
            expect(ctx, &case, &name, g, &rot_ref(&start, i), w);
        }
    }
    for x in [1isize, -1, 2, -2, 3, -3, 0] {
        let exp = reduce(&cat(&[&start, &[x]]));
        let name = format!("&a * {}", x);
        if want(&name) {
            let g = ctx.guard(|| letters(&(&a * x)));
            expect(ctx, &case, &name, g, &exp, w);
        }
        let name = format!("a * {}", x);
        if want(&name) {
            let g = ctx.guard(|| letters(&(a.clone() * x)));
            expect(ctx, &case, &name, g, &exp, w);
        }
    }
    for b in operands3 {
        let exp = reduce(&cat(&[&start, b]));
        let bw = FreeWord::new(b.iter().cloned());
        let forms: [(&str, Box<dyn Fn() -> FreeWord>); 5] = [
            ("&a * &b", Box::new(|| &a * &bw)),
            ("&a * b", Box::new(|| &a * bw.clone())),
            ("a * &b", Box::new(|| a.clone() * &bw)),
            ("a * b", Box::new(|| a.clone() * bw.clone())),
            ("a *= &b", Box::new(|| {
                let mut c = a.clone();
                c *= &bw;
                c
            })),
        ];
        for (form, f) in forms.iter() {
            let name = format!("{} with b={:?}", form, b);
            if want(&name) {
                let g = ctx.guard(|| letters(&f()));
                expect(ctx, &case, &name, g, &exp, w);
            }
        }
    }
    for b in operands2 {
        let name = format!("commutator with b={:?}", b);
        if want(&name) {
            let bw = FreeWord::new(b.iter().cloned());
            let exp = reduce(&cat(&[&start, b, &inv(&start), &inv(b)]));
            let g = ctx.guard(|| letters(&a.commutator(&bw)));
            expect(ctx, &case, &name, g, &exp, w);
        }
    }
}

// --- layer 'hist' (stateright) ----------------------------------------------------------

#[derive(Clone, Debug, PartialEq, Eq, Hash)]
pub enum Op {
    MulLetter(isize),
    MulAssignLetter(isize),
    MulAssignWord(usize),
    Inverse,
    Pow(isize),
    Rot(isize),
    Comm(isize),
}

const WORDS: [&[isize]; 3] = [&[1, 2], &[-2, -1], &[1, -2, 3]];

impl Op {
    fn to_json(&self) -> Value {
        match self {
            Op::MulLetter(x) => json!({"op": "mul_letter", "x": x}),
            Op::MulAssignLetter(x) => json!({"op": "mul_assign_letter", "x": x}),
            Op::MulAssignWord(k) => json!({"op": "mul_assign_word", "k": k}),
            Op::Inverse => json!({"op": "inverse"}),
            Op::Pow(k) => json!({"op": "pow", "k": k}),
            Op::Rot(i) => json!({"op": "rot", "i": i}),
            Op::Comm(x) => json!({"op": "comm", "x": x}),
        }
    }
    fn from_json(v: &Value) -> Option<Op> {
        Some(match v["op"].as_str()? {
            "mul_letter" => Op::MulLetter(v["x"].as_i64()? as isize),
            "mul_assign_letter" => Op::MulAssignLetter(v["x"].as_i64()? as isize),
            "mul_assign_word" => Op::MulAssignWord(v["k"].as_u64()? as usize),
            "inverse" => Op::Inverse,
            "pow" => Op::Pow(v["k"].as_i64()? as isize),
            "rot" => Op::Rot(v["i"].as_i64()? as isize),
            "comm" => Op::Comm(v["x"].as_i64()? as isize),
            _ => return None,
        })
    }
    fn apply_real(&self, cur: &FreeWord) -> FreeWord {
        match self {
            Op::MulLetter(x) => cur * *x,
            Op::MulAssignLetter(x) => {
                let mut c = cur.clone();
                c *= &FreeWord::new([*x]);
                c
            }
            Op::MulAssignWord(k) => {
                let mut c = cur.clone();
                c *= &FreeWord::new(WORDS[*k].iter().cloned());
                c
            }
            Op::Inverse => cur.inverse(),
            Op::Pow(k) => cur.raised_to(*k),
            Op::Rot(i) => cur.rotated(*i),
            Op::Comm(x) => cur.commutator(&FreeWord::new([*x])),
        }
    }
    fn apply_ref(&self, m: &[isize]) -> Vec<isize> {
        match self {
            Op::MulLetter(x) | Op::MulAssignLetter(x) => reduce(&cat(&[m, &[*x]])),
            Op::MulAssignWord(k) => reduce(&cat(&[m, WORDS[*k]])),
            Op::Inverse => inv(m),
            Op::Pow(k) => pow_ref(m, *k),
            Op::Rot(i) => rot_ref(m, *i),
            Op::Comm(x) => reduce(&cat(&[m, &[*x], &inv(m), &[-*x]])),
        }
    }
}

fn menu() -> Vec<Op> {
    let mut acts = vec![];
    for x in [1, -1, 2, -2, 3, -3] {
        acts.push(Op::MulLetter(x));
        acts.push(Op::MulAssignLetter(x));
    }
    for k in 0..3 {
        acts.push(Op::MulAssignWord(k));
    }
    acts.push(Op::Inverse);
    acts.push(Op::Pow(-1));
    acts.push(Op::Pow(2));
    acts.push(Op::Rot(1));
    acts.push(Op::Rot(-1));
    acts.push(Op::Comm(1));
    acts.push(Op::Comm(2));
    acts
}

/// replays a history on real objects from the empty word; Err = a panic
fn replay_hist(hist: &[Op]) -> Result<(Vec<isize>, Vec<isize>), String> {
    let r = crate::engine::catch_subject(|| {
        let mut cur = FreeWord::empty();
        let mut model: Vec<isize> = vec![];
        for op in hist {
            cur = op.apply_real(&cur);
            model = op.apply_ref(&model);
        }
        (letters(&cur), model)
    });
    r.map_err(|e| panic_message(&e))
}

#[derive(Clone, Debug, PartialEq, Eq, Hash)]
pub struct St {
    w: Vec<isize>,
    depth: usize,
    ok: bool,
    hist: Vec<Op>,
}

struct M {
    depth: usize,
}

impl Model for M {
    type State = St;
    type Action = Op;
    fn init_states(&self) -> Vec<St> {
        vec![St { w: vec![], depth: 0, ok: true, hist: vec![] }]
    }
    fn actions(&self, s: &St, acts: &mut Vec<Op>) {
        if s.depth < self.depth && s.ok {
            acts.extend(menu());
        }
    }
    fn next_state(&self, s: &St, a: Op) -> Option<St> {
        let mut hist = s.hist.clone();
        hist.push(a);
        let (w, ok) = match replay_hist(&hist) {
            Ok((w, m)) => {
                let ok = w == m && is_reduced(&w);
                (w, ok)
            }
            Err(_) => (vec![isize::MAX], false),
        };
        Some(St { w, depth: s.depth + 1, ok, hist })
    }
    fn properties(&self) -> Vec<Property<Self>> {
        vec![Property::always("reduced and equal to the reference", |_, s: &St| s.ok)]
    }
}

// `hist` is part of the derived Hash/Eq above on purpose only via (w, depth): override
// by wrapping — stateright needs Hash + Eq on the state, and two histories reaching the
// same letter vector at the same depth have identical futures (a FreeWord is its letters).
mod keyed {
    use super::*;
    use std::hash::{Hash, Hasher};
    #[derive(Clone, Debug)]
    pub struct K(pub St);
    impl PartialEq for K {
        fn eq(&self, o: &Self) -> bool {
            self.0.w == o.0.w && self.0.depth == o.0.depth && self.0.ok == o.0.ok
        }
    }
    impl Eq for K {}
    impl Hash for K {
        fn hash<H: Hasher>(&self, h: &mut H) {
            self.0.w.hash(h);
            self.0.depth.hash(h);
            self.0.ok.hash(h);
        }
    }
    pub struct MK(pub M);
    impl Model for MK {
        type State = K;
        type Action = Op;
        fn init_states(&self) -> Vec<K> {
            self.0.init_states().into_iter().map(K).collect()
        }
        fn actions(&self, s: &K, acts: &mut Vec<Op>) {
            self.0.actions(&s.0, acts)
        }
        fn next_state(&self, s: &K, a: Op) -> Option<K> {
            self.0.next_state(&s.0, a).map(K)
        }
        fn properties(&self) -> Vec<Property<Self>> {
            vec![Property::always("reduced and equal to the reference", |_, s: &K| s.0.ok)]
        }
    }
}

fn hist_layer(ctx: &mut Ctx, depth: usize) {
    ctx.announce(&json!({"layer": "hist", "depth": depth}));
    let threads = std::thread::available_parallelism().map(|n| n.get()).unwrap_or(4).min(16);
    let mut uniq = vec![];
    for round in 0..2 {
        let c = keyed::MK(M { depth }).checker().threads(threads).spawn_bfs().join();
        uniq.push(c.unique_state_count());
        if let Some(p) = c.discovery("reduced and equal to the reference") {
            let acts: Vec<Op> = p.into_actions();
            // shortest failing prefix, replayed without stateright
            for l in 1..=acts.len() {
                let bad = match replay_hist(&acts[..l]) {
                    Ok((w, m)) => {
                        if w != m || !is_reduced(&w) {
                            Some(format!("after the history the word is {:?}, the reference has {:?}", w, m))
                        } else {
                            None
                        }
                    }
                    Err(msg) => Some(format!("panic: {}", msg)),
                };
                if let Some(why) = bad {
                    ctx.violation(
                        "history",
                        json!({"layer": "hist", "history": acts[..l].iter().map(|o| o.to_json()).collect::<Vec<_>>()}),
                        why,
                        l as u64,
                    );
                    return;
                }
            }
            panic!("stateright discovery did not reproduce on replay: {:?}", acts);
        }
        if round == 0 {
            ctx.states += c.unique_state_count() as u64;
            ctx.evaluations += c.unique_state_count() as u64;
            ctx.nontrivial += (c.unique_state_count() as u64).saturating_sub(1);
            ctx.transitions += c.state_count() as u64;
            ctx.traces += c.state_count() as u64;
            ctx.add("hist_states", c.unique_state_count() as i64);
            ctx.add("hist_generated", c.state_count() as i64);
        }
    }
    if uniq[0] != uniq[1] {
        panic!("stateright runs disagree: {:?}", uniq);
    }
    ctx.sample(json!({"layer": "hist", "history": [Op::Comm(1).to_json(), Op::MulAssignWord(1).to_json(), Op::Rot(1).to_json(), Op::Pow(2).to_json()]}));
}

// --- layers 'axioms' and 'relators' -----------------------------------------------------

fn fw(w: &[isize]) -> FreeWord {
    FreeWord::new(w.iter().cloned())
}

fn axioms_layer(ctx: &mut Ctx) {
    let words = reduced_words(3, 2);
    for (ia, a) in words.iter().enumerate() {
        if !ctx.take() {
            continue;
        }
        let case = json!({"layer": "axioms", "a": a});
        ctx.announce(&case);
        ctx.count(true);
        let r = ctx.guard(|| {
            let wa = fw(a);
            let e = FreeWord::empty();
            if &wa * &e != wa || &e * &wa != wa {
                return Some(format!("identity law fails for {:?}", a));
            }
            if &wa * wa.inverse() != e || wa.inverse() * &wa != e {
                return Some(format!("inverse law fails for {:?}", a));
            }
            if wa.inverse().inverse() != wa {
                return Some(format!("double inverse fails for {:?}", a));
            }
            for b in &words {
                let wb = fw(b);
                if (&wa * &wb).inverse() != wb.inverse() * wa.inverse() {
                    return Some(format!("(ab)^-1 != b^-1 a^-1 for {:?}, {:?}", a, b));
                }
                // equality of values is equality in the free group
                if (wa == wb) != (reduce(a) == reduce(b)) {
                    return Some(format!("== disagrees with the free group for {:?}, {:?}", a, b));
                }
                for c in &words {
                    let wc = fw(c);
                    if (&wa * &wb) * &wc != &wa * (&wb * &wc) {
                        return Some(format!("associativity fails for {:?}, {:?}, {:?}", a, b, c));
                    }
                }
            }
            None
        });
        ctx.ops((words.len() * words.len()) as u64);
        match r {
            Ok(None) => {}
            Ok(Some(why)) => ctx.violation("axioms", case, why, ia as u64),
            Err(m) => ctx.violation("panic", case, m, ia as u64),
        }
    }
    // ordering: strict total order compatible with equality — words of length <= 3 over 2 generators, words of
    // length <= 2 over 3 generators, and single letters and pairs with generator indices up to 12 and at the
    // boundaries 2^7, 2^8, 2^15, 2^16, 2^31, 2^32, 2^53, 2^63 - 1
    let mut words = reduced_words(2, 3);
    for w in reduced_words(3, 2) {
        if !words.contains(&w) {
            words.push(w);
        }
    }
    // (generator indices at the power-of-two boundaries of the integer widths as well: an order that packs a
    // letter into a narrower key must still separate them)
    for g in [4isize, 9, 10, 11, 12, 127, 128, 255, 256, 32767, 32768, 65535, 65536, (1 << 31) - 1, 1 << 31, (1 << 32) - 1, 1 << 32, (1 << 32) + 5, 1 << 53, isize::MAX - 1, isize::MAX] {
        for w in [vec![g], vec![-g], vec![1, g], vec![-g, 2], vec![g, -g + 1], vec![5, -g], vec![-5, g]] {
            if is_reduced(&w) && !words.contains(&w) {
                words.push(w);
            }
        }
    }
    for (ia, a) in words.iter().enumerate() {
        if !ctx.take() {
            continue;
        }
        let case = json!({"layer": "order", "a": a});
        ctx.announce(&case);
        ctx.count(true);
        let r = ctx.guard(|| {
            use std::cmp::Ordering::*;
            let wa = fw(a);
            if wa.cmp(&wa) != Equal || wa.partial_cmp(&wa) != Some(Equal) {
                return Some(format!("cmp not reflexive-equal for {:?}", a));
            }
            for b in &words {
                let wb = fw(b);
                let ab = wa.cmp(&wb);
                if (ab == Equal) != (wa == wb) {
                    return Some(format!("cmp == Equal disagrees with == for {:?}, {:?}", a, b));
                }
                if ab != wb.cmp(&wa).reverse() {
                    return Some(format!("cmp not antisymmetric for {:?}, {:?}", a, b));
                }
                if wa.partial_cmp(&wb) != Some(ab) || (wa < wb) != (ab == Less) {
                    return Some(format!("partial_cmp/< disagree with cmp for {:?}, {:?}", a, b));
                }
                for c in &words {
                    let wc = fw(c);
                    if ab == Less && wb.cmp(&wc) == Less && wa.cmp(&wc) != Less {
                        return Some(format!("cmp not transitive for {:?}, {:?}, {:?}", a, b, c));
                    }
                }
            }
            None
        });
        ctx.ops((words.len() * words.len()) as u64);
        match r {
            Ok(None) => {}
            Ok(Some(why)) => ctx.violation("order", case, why, ia as u64),
            Err(m) => ctx.violation("panic", case, m, ia as u64),
        }
    }
}

fn relator_case(ctx: &mut Ctx, w: &[isize]) {
    let case = json!({"layer": "relators", "w": w});
    let n = w.len();
    if n <= 6 {
        ctx.announce(&case);
    }
    let cyc = n == 0 || w[0] != -w[n - 1];
    ctx.count(n >= 2);
    let weight = n as u64;
    // reference: all rotations of w and of its inverse, each freely reduced
    let mut all: Vec<Vec<isize>> = vec![];
    if n == 0 {
        all.push(vec![]);
    }
    for i in 0..n as isize {
        all.push(rot_ref(w, i));
        all.push(inv(&rot_ref(w, i)));
    }
    let r = ctx.guard(|| {
        let word = fw(w);
        let perms: Vec<Vec<isize>> = relator_permutations(&word).iter().map(letters).collect();
        let rep = relator_representative(&word);
        // minimum under the crate's own order
        let min = all.iter().map(|x| fw(x)).min().unwrap();
        let mut why = None;
        let exp_set: BTreeSet<Vec<isize>> = all.iter().cloned().collect();
        let got_set: BTreeSet<Vec<isize>> = perms.iter().cloned().collect();
        if got_set != exp_set || got_set.len() != perms.len() {
            why = Some(format!("relator_permutations = {:?}, expected {:?}", perms, exp_set));
        } else if rep != min {
            why = Some(format!("relator_representative = {:?}, least rotation/inverse is {:?}", letters(&rep), letters(&min)));
        } else if cyc && n <= 8 {
            // (for longer words every rotation and inverse is itself a case of this exhaustive family, and
            // agreement follows from 'representative = least element' holding for each of them)
            for x in &all {
                let rx = relator_representative(&fw(x));
                if rx != rep {
                    why = Some(format!("representative of the rotation/inverse {:?} is {:?}, of the word itself {:?}", x, letters(&rx), letters(&rep)));
                    break;
                }
                let px: BTreeSet<Vec<isize>> = relator_permutations(&fw(x)).iter().map(letters).collect();
                if px != exp_set {
                    why = Some(format!("relator_permutations differs for the rotation/inverse {:?}", x));
                    break;
                }
            }
        }
        why
    });
    ctx.ops(2 + 2 * all.len() as u64);
    match r {
        Ok(None) => {}
        Ok(Some(why)) => ctx.violation("relators", case, why, weight),
        Err(m) => ctx.violation("panic", case, m, weight),
    }
}

fn run(ctx: &mut Ctx) {
    let tier = ctx.tier;
    let raws = sequences(&[0, 1, -1, 2, -2, 3, -3], 4);
    let operands3 = reduced_words(3, 3);
    let operands2 = reduced_words(3, 2);
    for raw in &raws {
        if ctx.take() {
            if ctx.want_sample() && raw.len() == 4 && reduce(raw).len() == 2 {
                ctx.sample(json!({"layer": "step", "start": raw}));
            }
            step_case(ctx, raw, &operands3, &operands2, None);
        }
    }
    // the same step checks over letters at the integer-width boundaries (generator numbers 2^32 and 2^63 - 1)
    {
        let big = [1isize, -1, 1 << 32, -(1 << 32), isize::MAX, -isize::MAX];
        let raws_big = sequences(&big, 3);
        let ops_big: Vec<Vec<isize>> = sequences(&big, 2).into_iter().filter(|w| is_reduced(w)).collect();
        for raw in &raws_big {
            if raw.iter().any(|x| x.unsigned_abs() > 1) && ctx.take() {
                step_case(ctx, raw, &ops_big, &ops_big, None);
            }
        }
    }
    axioms_layer(ctx);
    if ctx.take() {
        relator_case(ctx, &[]);
    }
    for (gens, maxlen) in [(2usize, tier.pick(10, 14)), (3, tier.pick(8, 10)), (4, tier.pick(6, 8))] {
        // the generator walks all words in every worker; a worker runs its share
        for_each_reduced_word(gens, maxlen, gens > 2, &mut |w| {
            if ctx.take() {
                relator_case(ctx, w);
            }
        });
    }
    if ctx.shard == 0 {
        hist_layer(ctx, tier.pick(5, 6));
    }
}

fn replay(ctx: &mut Ctx, case: &Value) {
    match case["layer"].as_str() {
        Some("step") => {
            let raw = isize_list(&case["start"]);
            let operands3 = reduced_words(3, 3);
            let operands2 = reduced_words(3, 2);
            step_case(ctx, &raw, &operands3, &operands2, case["action"].as_str());
        }
        Some("hist") => {
            let hist: Vec<Op> = case["history"].as_array().map(|a| a.iter().filter_map(Op::from_json).collect()).unwrap_or_default();
            ctx.count(true);
            ctx.ops(hist.len() as u64);
            match replay_hist(&hist) {
                Ok((w, m)) => {
                    if w != m || !is_reduced(&w) {
                        ctx.violation("history", case.clone(), format!("after the history the word is {:?}, the reference has {:?}", w, m), hist.len() as u64);
                    }
                }
                Err(msg) => ctx.violation("history", case.clone(), format!("panic: {}", msg), hist.len() as u64),
            }
        }
        Some("relators") => relator_case(ctx, &isize_list(&case["w"])),
        Some("axioms") | Some("order") => {
            ctx.replaying = true;
            axioms_layer(ctx);
        }
        _ => {}
    }
}
