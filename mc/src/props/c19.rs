//! C19 — minimum cuts separate source from sink and have minimum size.

use crate::engine::*;
use rust_dsymbols::util::cutsets::{min_edge_cut, min_edge_cut_undirected, min_vertex_cut, min_vertex_cut_undirected};
use serde_json::{json, Value};
use std::collections::BTreeSet;

pub fn spec() -> Spec {
    Spec {
        id: "C19",
        run,
        replay,
        nshards: |_| 16,
        case_cap_s: |t| t.pick(120, 1200),
        rule: "one case per (graph, ordered source-sink pair, entry point). Family 'digraph': all simple digraphs on <= 4 vertices and on 5 vertices with <= E edges (thorough: all), each also under a sparse non-monotone vertex labeling; family 'forward': all digraphs with edges i->j, i<j, on N vertices through the directed entry points and all undirected graphs on N vertices through the undirected entry points (this family is what exercises flow cancellation); family 'sparse7' (quick tier; subsumed by 'forward' at the thorough tier): all undirected graphs on 7 vertices with exactly 9 edges, edge cuts only (9 edges on 7 vertices is the first size at which cancelling flow along an antiparallel twin can go wrong); family 'recorded': every network handed to min_vertex_cut_undirected while simplify runs on a corpus input (hook), checked by a Menger certificate. Source and sink are endpoints of some edge, distinct, and for vertex cuts not joined by an edge. Oracle: minimum over all source-side vertex subsets (edge cuts) / all subsets of the other vertices (vertex cuts); cut separates, has minimum size, no repeats, avoids source and sink; inside + source = vertices reachable from the source after removing the cut. Non-trivial = minimum cut size >= 1.",
        assumptions: &["a vertex that touches no edge is not a vertex of the graph (the functions take an edge list)"],
        bounds: |t| json!({"digraph_max_vertices": 4, "digraph_5_vertices_max_edges": if t.is_thorough() { 20 } else { 6 }, "forward_vertices": t.pick(6, 7), "undirected_vertices": t.pick(6, 7), "undirected_7_vertices_edge_counts_quick": [9], "routes_family": {"what": "3 routes through a 3 x 3 grid + one detour over 3 fresh vertices ending anywhere in the grid, 14 vertices, 64 labelings (every position of each detour vertex among the grid vertices of its depth)", "networks": 32886}, "layered_family": {"widths": if t.is_thorough() { json!([[3,3,3],[2,3,3,2]]) } else { json!([[3,3,3]]) }, "what": "all subsets of the edges between consecutive layers, one source-sink query each"}, "host_family": {"hosts": "cube, grids 2x4 and 3x3, Petersen, Wagner, K44, wheel 8, pentagonal prism, two K4 joined by a path (8-10 vertices)", "deleted_edges": t.pick(2, 3), "orientations": 3, "labelings": 2}}),
    }
}

fn reach(n: usize, edges: &[(usize, usize)], s: usize, removed_e: &BTreeSet<(usize, usize)>, removed_v: &BTreeSet<usize>) -> Vec<bool> {
    let mut seen = vec![false; n];
    if removed_v.contains(&s) {
        return seen;
    }
    seen[s] = true;
    let mut st = vec![s];
    while let Some(v) = st.pop() {
        for &(a, b) in edges {
            if a == v && !seen[b] && !removed_e.contains(&(a, b)) && !removed_v.contains(&b) {
                seen[b] = true;
                st.push(b);
            }
        }
    }
    seen
}

/// `edges` on vertices 0..n as given to the entry point (before symmetrisation); `label` maps to the labels passed to the crate
fn check_graph(ctx: &mut Ctx, family: &str, n: usize, edges: &[(usize, usize)], label: &[usize], directed_entry: bool, undirected_entry: bool) {
    check_graph_sel(ctx, family, n, edges, label, directed_entry, undirected_entry, true)
}

fn check_graph_sel(ctx: &mut Ctx, family: &str, n: usize, edges: &[(usize, usize)], label: &[usize], directed_entry: bool, undirected_entry: bool, vertex_cuts: bool) {
    check_graph_pair(ctx, family, n, edges, label, directed_entry, undirected_entry, vertex_cuts, None)
}

fn check_graph_pair(ctx: &mut Ctx, family: &str, n: usize, edges: &[(usize, usize)], label: &[usize], directed_entry: bool, undirected_entry: bool, vertex_cuts: bool, only: Option<(usize, usize)>) {
    let touched: BTreeSet<usize> = edges.iter().flat_map(|&(a, b)| [a, b]).collect();
    let unlabel = |x: usize| label.iter().position(|&l| l == x);
    for undirected in [false, true] {
        if (undirected && !undirected_entry) || (!undirected && !directed_entry) {
            continue;
        }
        let eff: Vec<(usize, usize)> = if undirected {
            edges.iter().flat_map(|&(a, b)| [(a, b), (b, a)]).collect::<BTreeSet<_>>().into_iter().collect()
        } else {
            edges.to_vec()
        };
        let passed: Vec<(usize, usize)> = edges.iter().map(|&(a, b)| (label[a], label[b])).collect();
        for s in 0..n {
            for t in 0..n {
                if s == t || !touched.contains(&s) || !touched.contains(&t) {
                    continue;
                }
                if let Some(p) = only {
                    if p != (s, t) {
                        continue;
                    }
                }
                let case = json!({"family": family, "n": n, "edges": edges, "labels": label, "source": s, "sink": t, "undirected": undirected});
                ctx.announce(&case);
                let weight = (n * 100 + edges.len()) as u64;
                // --- edge cut
                let mut best = usize::MAX;
                for sm in 0u32..(1 << n) {
                    if sm >> s & 1 == 1 && sm >> t & 1 == 0 {
                        let c = eff.iter().filter(|&&(a, b)| sm >> a & 1 == 1 && sm >> b & 1 == 0).count();
                        best = best.min(c);
                    }
                }
                ctx.count(best >= 1);
                ctx.ops(1);
                let e2 = passed.clone();
                let r = ctx.guard(|| if undirected { min_edge_cut_undirected(e2, label[s], label[t]) } else { min_edge_cut(e2, label[s], label[t]) });
                match r {
                    Err(m) => ctx.violation("panic:edge-cut", case.clone(), m, weight),
                    Ok(c) => {
                        let mut why = None;
                        let mut ce: BTreeSet<(usize, usize)> = BTreeSet::new();
                        for &(a, b) in &c.cut_edges {
                            match (unlabel(a), unlabel(b)) {
                                (Some(x), Some(y)) if eff.contains(&(x, y)) => {
                                    if !ce.insert((x, y)) {
                                        why = Some(format!("cut edge ({},{}) is repeated", a, b));
                                    }
                                }
                                _ => why = Some(format!("cut edge ({},{}) is not an edge of the graph", a, b)),
                            }
                        }
                        if why.is_none() {
                            let seen = reach(n, &eff, s, &ce, &BTreeSet::new());
                            let inside: BTreeSet<Option<usize>> = c.inside_vertices.iter().map(|&v| unlabel(v)).chain([Some(s)]).collect();
                            let exp: BTreeSet<Option<usize>> = (0..n).filter(|&v| seen[v]).map(Some).collect();
                            if seen[t] {
                                why = Some("the sink is still reachable after removing the cut".into());
                            } else if ce.len() != best {
                                why = Some(format!("cut has {} edges, the minimum is {}", ce.len(), best));
                            } else if inside != exp {
                                why = Some(format!("inside vertices {:?} (+ source) are not the vertices reachable from the source", c.inside_vertices));
                            }
                        }
                        if let Some(w) = why {
                            ctx.violation("edge-cut", case.clone(), format!("cut_edges = {:?}: {}", c.cut_edges, w), weight);
                        }
                    }
                }
                // --- vertex cut
                if !vertex_cuts || eff.contains(&(s, t)) {
                    continue;
                }
                let others: Vec<usize> = (0..n).filter(|&v| v != s && v != t).collect();
                let mut bestv = usize::MAX;
                for cm in 0u32..(1 << others.len()) {
                    if (cm.count_ones() as usize) < bestv {
                        let rv: BTreeSet<usize> = (0..others.len()).filter(|&k| cm >> k & 1 == 1).map(|k| others[k]).collect();
                        if !reach(n, &eff, s, &BTreeSet::new(), &rv)[t] {
                            bestv = rv.len();
                        }
                    }
                }
                ctx.count(bestv >= 1);
                ctx.ops(1);
                let e2 = passed.clone();
                let r = ctx.guard(|| if undirected { min_vertex_cut_undirected(e2, label[s], label[t]) } else { min_vertex_cut(e2, label[s], label[t]) });
                match r {
                    Err(m) => ctx.violation("panic:vertex-cut", case.clone(), m, weight),
                    Ok(c) => {
                        let mut why = None;
                        let mut cv: BTreeSet<usize> = BTreeSet::new();
                        for &v in &c.cut_vertices {
                            match unlabel(v) {
                                Some(x) if x != s && x != t => {
                                    if !cv.insert(x) {
                                        why = Some(format!("cut vertex {} is repeated", v));
                                    }
                                }
                                Some(_) => why = Some(format!("cut contains the source or the sink ({})", v)),
                                None => why = Some(format!("cut vertex {} is not a vertex of the graph", v)),
                            }
                        }
                        if why.is_none() {
                            let seen = reach(n, &eff, s, &BTreeSet::new(), &cv);
                            let inside: BTreeSet<Option<usize>> = c.inside_vertices.iter().map(|&v| unlabel(v)).chain([Some(s)]).collect();
                            let exp: BTreeSet<Option<usize>> = (0..n).filter(|&v| seen[v]).map(Some).collect();
                            if seen[t] {
                                why = Some("the sink is still reachable after removing the cut".into());
                            } else if cv.len() != bestv {
                                why = Some(format!("cut has {} vertices, the minimum is {}", cv.len(), bestv));
                            } else if inside != exp {
                                why = Some(format!("inside vertices {:?} (+ source) are not the vertices reachable from the source", c.inside_vertices));
                            }
                        }
                        if let Some(w) = why {
                            ctx.violation("vertex-cut", case.clone(), format!("cut_vertices = {:?}: {}", c.cut_vertices, w), weight);
                        }
                    }
                }
            }
        }
    }
}

/// maximum number of internally vertex-disjoint s-t paths in an undirected graph (unit vertex
/// capacities, augmenting paths on the split graph) — an independent max-flow for the Menger certificate
fn disjoint_paths(n: usize, edges: &[(usize, usize)], s: usize, t: usize) -> usize {
    // node 2v = v_in, 2v+1 = v_out
    let m = 2 * n;
    let mut cap: std::collections::HashMap<(usize, usize), i64> = std::collections::HashMap::new();
    let mut adj: Vec<Vec<usize>> = vec![vec![]; m];
    let mut add = |a: usize, b: usize, c: i64, cap: &mut std::collections::HashMap<(usize, usize), i64>, adj: &mut Vec<Vec<usize>>| {
        *cap.entry((a, b)).or_insert(0) += c;
        cap.entry((b, a)).or_insert(0);
        if !adj[a].contains(&b) {
            adj[a].push(b);
        }
        if !adj[b].contains(&a) {
            adj[b].push(a);
        }
    };
    let big = 1_000_000;
    for v in 0..n {
        add(2 * v, 2 * v + 1, if v == s || v == t { big } else { 1 }, &mut cap, &mut adj);
    }
    for &(a, b) in edges {
        if a != b {
            add(2 * a + 1, 2 * b, big, &mut cap, &mut adj);
            add(2 * b + 1, 2 * a, big, &mut cap, &mut adj);
        }
    }
    let (src, dst) = (2 * s + 1, 2 * t);
    let mut flow = 0;
    loop {
        let mut prev = vec![usize::MAX; m];
        prev[src] = src;
        let mut q = std::collections::VecDeque::from([src]);
        while let Some(x) = q.pop_front() {
            if x == dst {
                break;
            }
            for &y in &adj[x] {
                if prev[y] == usize::MAX && cap[&(x, y)] > 0 {
                    prev[y] = x;
                    q.push_back(y);
                }
            }
        }
        if prev[dst] == usize::MAX {
            return flow;
        }
        let mut y = dst;
        while y != src {
            let x = prev[y];
            *cap.get_mut(&(x, y)).unwrap() -= 1;
            *cap.get_mut(&(y, x)).unwrap() += 1;
            y = x;
        }
        flow += 1;
        if flow > n {
            return flow;
        }
    }
}

/// family 'recorded': the networks simplify hands to min_vertex_cut_undirected on corpus inputs
/// unit-capacity max flow on a DIRECTED graph by breadth-first augmenting paths; `vertex` = internally
/// vertex-disjoint paths (split graph), else arc-disjoint paths.  Independent of the crate's code; its values are
/// compared with the brute-force minimum on every network of the routes family that is small enough.
fn max_flow_dir(n: usize, edges: &[(usize, usize)], s: usize, t: usize, vertex: bool) -> usize {
    let m = 2 * n;
    let mut cap: std::collections::HashMap<(usize, usize), i64> = std::collections::HashMap::new();
    let mut adj: Vec<Vec<usize>> = vec![vec![]; m];
    let mut add = |a: usize, b: usize, c: i64, cap: &mut std::collections::HashMap<(usize, usize), i64>, adj: &mut Vec<Vec<usize>>| {
        *cap.entry((a, b)).or_insert(0) += c;
        cap.entry((b, a)).or_insert(0);
        if !adj[a].contains(&b) {
            adj[a].push(b);
        }
        if !adj[b].contains(&a) {
            adj[b].push(a);
        }
    };
    let big = 1_000_000;
    for v in 0..n {
        add(2 * v, 2 * v + 1, if !vertex || v == s || v == t { big } else { 1 }, &mut cap, &mut adj);
    }
    let distinct: BTreeSet<(usize, usize)> = edges.iter().cloned().filter(|&(a, b)| a != b).collect();
    for (a, b) in distinct {
        add(2 * a + 1, 2 * b, if vertex { big } else { 1 }, &mut cap, &mut adj);
    }
    let (src, dst) = (2 * s + 1, 2 * t);
    let mut flow = 0;
    loop {
        let mut prev = vec![usize::MAX; m];
        prev[src] = src;
        let mut q = std::collections::VecDeque::from([src]);
        while let Some(x) = q.pop_front() {
            for &y in &adj[x] {
                if prev[y] == usize::MAX && cap[&(x, y)] > 0 {
                    prev[y] = x;
                    q.push_back(y);
                }
            }
        }
        if prev[dst] == usize::MAX {
            return flow;
        }
        let mut y = dst;
        while y != src {
            let x = prev[y];
            *cap.get_mut(&(x, y)).unwrap() -= 1;
            *cap.get_mut(&(y, x)).unwrap() += 1;
            y = x;
        }
        flow += 1;
        if flow > 4 * n {
            return flow;
        }
    }
}

/// one directed source-sink query on a network too large for the subset oracle: Menger certificate
fn check_flow_case(ctx: &mut Ctx, family: &str, n: usize, edges: &[(usize, usize)], label: &[usize], s: usize, t: usize, cross_check: bool) {
    let case = json!({"family": family, "n": n, "edges": edges, "labels": label, "source": s, "sink": t, "undirected": false});
    ctx.announce(&case);
    ctx.count(true);
    let weight = (n * 100 + edges.len()) as u64;
    let unlabel = |x: usize| label.iter().position(|&l| l == x);
    let passed: Vec<(usize, usize)> = edges.iter().map(|&(a, b)| (label[a], label[b])).collect();
    let eset: BTreeSet<(usize, usize)> = edges.iter().cloned().collect();
    let kv = max_flow_dir(n, edges, s, t, true);
    let ke = max_flow_dir(n, edges, s, t, false);
    if cross_check && n <= 12 {
        // brute force over vertex subsets (harness self-check of the flow oracle)
        let others: Vec<usize> = (0..n).filter(|&v| v != s && v != t).collect();
        let mut best = usize::MAX;
        for cm in 0u32..(1 << others.len()) {
            if (cm.count_ones() as usize) < best {
                let rv: BTreeSet<usize> = (0..others.len()).filter(|&k| cm >> k & 1 == 1).map(|k| others[k]).collect();
                if !reach(n, edges, s, &BTreeSet::new(), &rv)[t] {
                    best = rv.len();
                }
            }
        }
        assert_eq!(best, kv, "harness: flow oracle and subset oracle disagree on {:?}", case);
    }
    // vertex cut
    if !eset.contains(&(s, t)) {
        ctx.ops(1);
        let e2 = passed.clone();
        match ctx.guard(|| min_vertex_cut(e2, label[s], label[t])) {
            Err(m) => ctx.violation("panic:vertex-cut", case.clone(), m, weight),
            Ok(c) => {
                let mut why = None;
                let mut cv: BTreeSet<usize> = BTreeSet::new();
                for &v in &c.cut_vertices {
                    match unlabel(v) {
                        Some(x) if x != s && x != t => {
                            if !cv.insert(x) {
                                why = Some(format!("cut vertex {} is repeated", v));
                            }
                        }
                        Some(_) => why = Some(format!("cut contains the source or the sink ({})", v)),
                        None => why = Some(format!("cut vertex {} is not a vertex of the graph", v)),
                    }
                }
                if why.is_none() {
                    let seen = reach(n, edges, s, &BTreeSet::new(), &cv);
                    let inside: BTreeSet<Option<usize>> = c.inside_vertices.iter().map(|&v| unlabel(v)).chain([Some(s)]).collect();
                    let touched: BTreeSet<usize> = edges.iter().flat_map(|&(a, b)| [a, b]).collect();
                    let exp: BTreeSet<Option<usize>> = (0..n).filter(|&v| seen[v] && touched.contains(&v)).map(Some).collect();
                    if seen[t] {
                        why = Some("the sink is still reachable after removing the cut".into());
                    } else if cv.len() != kv {
                        why = Some(format!("cut has {} vertices, the minimum is {} ({} internally disjoint paths exist)", cv.len(), kv, kv));
                    } else if inside != exp {
                        why = Some(format!("inside vertices {:?} (+ source) are not the vertices reachable from the source", c.inside_vertices));
                    }
                }
                if let Some(w) = why {
                    ctx.violation("vertex-cut", case.clone(), format!("cut_vertices = {:?}: {}", c.cut_vertices, w), weight);
                }
            }
        }
    }
    // edge cut
    ctx.ops(1);
    let e2 = passed.clone();
    match ctx.guard(|| min_edge_cut(e2, label[s], label[t])) {
        Err(m) => ctx.violation("panic:edge-cut", case.clone(), m, weight),
        Ok(c) => {
            let mut why = None;
            let mut ce: BTreeSet<(usize, usize)> = BTreeSet::new();
            for &(a, b) in &c.cut_edges {
                match (unlabel(a), unlabel(b)) {
                    (Some(x), Some(y)) if eset.contains(&(x, y)) => {
                        if !ce.insert((x, y)) {
                            why = Some(format!("cut edge ({},{}) is repeated", a, b));
                        }
                    }
                    _ => why = Some(format!("cut edge ({},{}) is not an edge of the graph", a, b)),
                }
            }
            if why.is_none() {
                let seen = reach(n, edges, s, &ce, &BTreeSet::new());
                if seen[t] {
                    why = Some("the sink is still reachable after removing the cut".into());
                } else if ce.len() != ke {
                    why = Some(format!("cut has {} edges, the minimum is {} ({} arc-disjoint paths exist)", ce.len(), ke, ke));
                }
            }
            if let Some(w) = why {
                ctx.violation("edge-cut", case.clone(), format!("cut_edges = {:?}: {}", c.cut_edges, w), weight);
            }
        }
    }
}

fn recorded_networks(ctx: &mut Ctx) {
    use crate::props::common3d::corpus;
    use crate::refmodel::dsym::{from_dsym, to_partial_dsym};
    use rust_dsymbols::verif_hooks;
    for (text, s) in corpus() {
        if !ctx.take() {
            continue;
        }
        let nets = std::panic::catch_unwind(std::panic::AssertUnwindSafe(|| {
            let cov = rust_dsymbols::delaney3d::pseudo_toroidal_cover(&to_partial_dsym(&s))?;
            let _ = from_dsym(&cov)?;
            verif_hooks::set_network_recording(true);
            let _ = rust_dsymbols::simplify::simplify(&cov);
            let n = verif_hooks::take_networks();
            verif_hooks::set_network_recording(false);
            Some(n)
        }));
        verif_hooks::set_network_recording(false);
        let nets = match nets {
            Ok(Some(n)) => n,
            _ => continue, // C15/C16's business
        };
        let mut seen = BTreeSet::new();
        for (edges, src, snk) in nets {
            let mut und: BTreeSet<(usize, usize)> = BTreeSet::new();
            for &(a, b) in &edges {
                und.insert((a.min(b), a.max(b)));
            }
            if !seen.insert((und.clone(), src, snk)) {
                continue;
            }
            let n = edges.iter().flat_map(|&(a, b)| [a, b]).chain([src, snk]).max().unwrap_or(0) + 1;
            let case = json!({"family": "recorded", "from": text, "n": n, "edges": und.iter().collect::<Vec<_>>(), "labels": (0..n).collect::<Vec<_>>(), "source": src, "sink": snk, "undirected": true});
            ctx.announce(&case);
            if src == snk || und.contains(&(src.min(snk), src.max(snk))) {
                continue;
            }
            let touched: BTreeSet<usize> = und.iter().flat_map(|&(a, b)| [a, b]).collect();
            if !touched.contains(&src) || !touched.contains(&snk) {
                continue;
            }
            let eff: Vec<(usize, usize)> = und.iter().flat_map(|&(a, b)| [(a, b), (b, a)]).collect();
            let k = disjoint_paths(n, &und.iter().cloned().collect::<Vec<_>>(), src, snk);
            ctx.count(k >= 1);
            ctx.ops(1);
            ctx.add("recorded_networks", 1);
            ctx.max("recorded_network_vertices", n as i64);
            let weight = 10_000 + n as u64;
            let e2: Vec<(usize, usize)> = und.iter().cloned().collect();
            match ctx.guard(|| min_vertex_cut_undirected(e2, src, snk)) {
                Err(m) => ctx.violation("panic:vertex-cut", case, m, weight),
                Ok(c) => {
                    let cv: BTreeSet<usize> = c.cut_vertices.iter().cloned().collect();
                    let mut why = None;
                    if cv.len() != c.cut_vertices.len() {
                        why = Some("a cut vertex is repeated".to_string());
                    } else if cv.contains(&src) || cv.contains(&snk) {
                        why = Some("the cut contains the source or the sink".into());
                    } else if cv.iter().any(|v| !touched.contains(v)) {
                        why = Some("a cut vertex is not a vertex of the graph".into());
                    } else {
                        let seen_v = reach(n, &eff, src, &BTreeSet::new(), &cv);
                        let inside: BTreeSet<usize> = c.inside_vertices.iter().cloned().chain([src]).collect();
                        let exp: BTreeSet<usize> = (0..n).filter(|&v| seen_v[v]).collect();
                        if seen_v[snk] {
                            why = Some("the sink is still reachable after removing the cut".into());
                        } else if cv.len() != k {
                            why = Some(format!("cut has {} vertices but there are {} internally disjoint paths (Menger)", cv.len(), k));
                        } else if inside != exp {
                            why = Some("inside vertices (+ source) are not the vertices reachable from the source".into());
                        }
                    }
                    if let Some(w) = why {
                        ctx.violation("vertex-cut", case, format!("cut_vertices = {:?}: {}", c.cut_vertices, w), weight);
                    }
                }
            }
        }
    }
}

fn ident_big(n: usize) -> Vec<usize> {
    (0..n).collect()
}

fn run(ctx: &mut Ctx) {
    let tier = ctx.tier;
    recorded_networks(ctx);
    let sparse = [7usize, 2, 11, 5, 3, 13, 1];
    let ident: Vec<usize> = (0..8).collect();
    // family digraph
    for n in 2..=5usize {
        let pairs: Vec<(usize, usize)> = (0..n).flat_map(|a| (0..n).filter(move |&b| b != a).map(move |b| (a, b))).collect();
        let m = pairs.len();
        let max_edges = if n < 5 || tier.is_thorough() { m } else { 6 };
        for mask in 1u32..(1u32 << m) {
            if mask.count_ones() as usize > max_edges {
                continue;
            }
            if ctx.take() {
                let edges: Vec<(usize, usize)> = (0..m).filter(|&k| mask >> k & 1 == 1).map(|k| pairs[k]).collect();
                check_graph(ctx, "digraph", n, &edges, &ident[..n], true, true);
                if n <= 4 {
                    check_graph(ctx, "digraph", n, &edges, &sparse[..n], true, true);
                }
                if ctx.want_sample() && n == 4 && edges.len() == 5 {
                    ctx.sample(json!({"family": "digraph", "n": n, "edges": edges}));
                }
            }
        }
    }
    // family sparse7: undirected graphs on 7 vertices with exactly 9 edges through the undirected edge-cut entry point, all
    // labelings (BFS tie-breaking depends on the labels).  Flow cancellation along an antiparallel twin first
    // goes wrong on 7 vertices with >= 9 edges; the complete 7-vertex family is thorough-tier only.
    if !tier.is_thorough() {
        let n = 7usize;
        let pairs: Vec<(usize, usize)> = (0..n).flat_map(|a| ((a + 1)..n).map(move |b| (a, b))).collect();
        let m = pairs.len();
        let lo: u32 = std::env::var("C19_S7_LO").ok().and_then(|x| x.parse().ok()).unwrap_or(9);
        let hi: u32 = std::env::var("C19_S7_HI").ok().and_then(|x| x.parse().ok()).unwrap_or(9);
        for mask in 1u32..(1u32 << m) {
            let c = mask.count_ones();
            if c < lo || c > hi {
                continue;
            }
            if ctx.take() {
                let edges: Vec<(usize, usize)> = (0..m).filter(|&k| mask >> k & 1 == 1).map(|k| pairs[k]).collect();
                check_graph_sel(ctx, "sparse7", n, &edges, &ident[..n], false, true, false);
            }
        }
    }
    // family host: graphs on 8-10 vertices obtained from fixed host graphs (cube, 2 x 4 and 3 x 3 grid, Petersen,
    // Wagner, K_{4,4}, wheel, prism over a pentagon, two K_4 joined by a path) by deleting up to 2 [3] edges; both
    // entry points, vertex and edge cuts, every source/sink pair, in three orientations for the directed entry
    // (as listed, alternating by parity, both directions) and under a second labeling
    {
        let hosts: Vec<(&str, usize, Vec<(usize, usize)>)> = vec![
            ("cube", 8, vec![(0, 1), (1, 2), (2, 3), (3, 0), (4, 5), (5, 6), (6, 7), (7, 4), (0, 4), (1, 5), (2, 6), (3, 7)]),
            ("grid 2x4", 8, vec![(0, 1), (1, 2), (2, 3), (4, 5), (5, 6), (6, 7), (0, 4), (1, 5), (2, 6), (3, 7)]),
            ("grid 3x3", 9, vec![(0, 1), (1, 2), (3, 4), (4, 5), (6, 7), (7, 8), (0, 3), (3, 6), (1, 4), (4, 7), (2, 5), (5, 8)]),
            ("Petersen", 10, vec![(0, 1), (1, 2), (2, 3), (3, 4), (4, 0), (0, 5), (1, 6), (2, 7), (3, 8), (4, 9), (5, 7), (7, 9), (9, 6), (6, 8), (8, 5)]),
            ("Wagner", 8, vec![(0, 1), (1, 2), (2, 3), (3, 4), (4, 5), (5, 6), (6, 7), (7, 0), (0, 4), (1, 5), (2, 6), (3, 7)]),
            ("K44", 8, (0..4).flat_map(|a| (4..8).map(move |b| (a, b))).collect()),
            ("wheel 8", 9, (0..8).flat_map(|a| [(a, (a + 1) % 8), (a, 8)]).map(|(a, b)| (a.min(b), a.max(b))).collect()),
            ("pentagonal prism", 10, (0..5).flat_map(|a| [(a, (a + 1) % 5), (5 + a, 5 + (a + 1) % 5), (a, a + 5)]).map(|(a, b)| (a.min(b), a.max(b))).collect()),
            ("two K4 and a path", 10, vec![(0, 1), (0, 2), (0, 3), (1, 2), (1, 3), (2, 3), (3, 4), (4, 5), (5, 6), (6, 7), (6, 8), (6, 9), (7, 8), (7, 9), (8, 9), (2, 5)]),
        ];
        let shuffled: Vec<usize> = vec![5, 12, 0, 9, 3, 14, 7, 1, 10, 4];
        let max_del = tier.pick(2usize, 3usize);
        for (name, n, host) in hosts {
            let m = host.len();
            for mask in 0u32..(1u32 << m) {
                let del = mask.count_ones() as usize;
                if del > max_del {
                    continue;
                }
                if !ctx.take() {
                    continue;
                }
                let edges: Vec<(usize, usize)> = (0..m).filter(|&k| mask >> k & 1 == 0).map(|k| host[k]).collect();
                let fam = format!("host {}", name);
                check_graph(ctx, &fam, n, &edges, &ident_big(n), true, true);
                check_graph(ctx, &fam, n, &edges, &shuffled[..n], false, true);
                let alt: Vec<(usize, usize)> = edges.iter().map(|&(a, b)| if (a + b) % 2 == 0 { (a, b) } else { (b, a) }).collect();
                check_graph(ctx, &fam, n, &alt, &ident_big(n), true, false);
                if del <= 1 {
                    let both: Vec<(usize, usize)> = edges.iter().flat_map(|&(a, b)| [(a, b), (b, a)]).collect();
                    check_graph(ctx, &fam, n, &both, &shuffled[..n], true, false);
                }
                ctx.add("host_graphs", 1);
            }
        }
    }
    // family layered: every directed network source -> layer 1 -> layer 2 -> layer 3 -> sink with layers of width
    // 3, 3, 3 [and 2, 3, 3, 2 at the thorough tier], all subsets of the edges between consecutive inner layers,
    // plus every single backward or skipping edge on a spread of them; one query per network (vertex cut and edge
    // cut from source to sink).  Augmenting paths that undo two or more earlier routes only occur on networks
    // with several long routes, which the small exhaustive families do not contain.
    {
        let shapes: Vec<Vec<usize>> = if tier.is_thorough() { vec![vec![3, 3, 3], vec![2, 3, 3, 2]] } else { vec![vec![3, 3, 3]] };
        for widths in shapes {
            let mut layers: Vec<Vec<usize>> = vec![];
            let mut next_id = 2usize; // 0 = source, 1 = sink
            for &w in &widths {
                layers.push((next_id..next_id + w).collect());
                next_id += w;
            }
            let n = next_id;
            let mut fixed: Vec<(usize, usize)> = vec![];
            for &v in &layers[0] {
                fixed.push((0, v));
            }
            for &v in layers.last().unwrap() {
                fixed.push((v, 1));
            }
            let mut optional: Vec<(usize, usize)> = vec![];
            for g in 0..layers.len() - 1 {
                for &a in &layers[g] {
                    for &b in &layers[g + 1] {
                        optional.push((a, b));
                    }
                }
            }
            let m = optional.len();
            // labels: identity and a permutation that reverses the order inside the layers
            let ident: Vec<usize> = (0..n).collect();
            let mut rev: Vec<usize> = vec![0, 1];
            for l in &layers {
                rev.extend(l.iter().rev());
            }
            for mask in 0u32..(1u32 << m) {
                if !ctx.take() {
                    continue;
                }
                let mut edges = fixed.clone();
                edges.extend((0..m).filter(|&k| mask >> k & 1 == 1).map(|k| optional[k]));
                let fam = "layered";
                check_graph_pair(ctx, fam, n, &edges, &ident, true, false, true, Some((0, 1)));
                if mask % 7 == 3 {
                    check_graph_pair(ctx, fam, n, &edges, &rev, true, false, true, Some((0, 1)));
                }
                ctx.add("layered_networks", 1);
            }
        }
    }
    // family routes: unions of three source-sink routes through a 3 x 3 grid of inner vertices (one vertex per
    // layer each, every multiset of 3 of the 27 routes) plus one detour source -> x -> y -> z -> (any grid vertex) over three
    // fresh vertices: up to 14 vertices, several long routes sharing vertices, a path that re-enters the middle.
    // Oracle: Menger certificate from an independent augmenting-path max flow (cross-checked against the
    // subset oracle wherever the network has at most 12 vertices).
    {
        let grid = |l: usize, k: usize| 2 + 3 * l + k; // 0 = source, 1 = sink
        let (x, y, z) = (11usize, 12usize, 13usize);
        let n = 14usize;
        let ident: Vec<usize> = (0..n).collect();
        // labelings: breadth-first search visits the vertices of one depth in label order, so what matters is where
        // each detour vertex stands among the grid vertices of its depth (the order inside a layer is already
        // covered by taking all 27 routes): all 4 x 4 x 4 positions
        let mut labelings: Vec<Vec<usize>> = vec![];
        for px in 0..4usize {
            for py in 0..4usize {
                for pz in 0..4usize {
                    let mut l = vec![0usize; n];
                    l[0] = 0;
                    l[1] = 1;
                    for layer in 0..3 {
                        for k in 0..3 {
                            l[grid(layer, k)] = 100 * (layer + 1) + 10 * k + 5;
                        }
                    }
                    l[x] = 100 + 10 * px;
                    l[y] = 200 + 10 * py;
                    l[z] = 300 + 10 * pz;
                    labelings.push(l);
                }
            }
        }
        let stride = std::env::var("VERIF_C19_STRIDE").ok().and_then(|v| v.parse::<usize>().ok()).unwrap_or(1);
        let mut idx = 0usize;
        for r1 in 0..27usize {
            for r2 in r1..27usize {
                for r3 in r2..27usize {
                    for target in 0..9usize {
                        idx += 1;
                        if idx % stride != 0 || !ctx.take() {
                            continue;
                        }
                        let mut edges: BTreeSet<(usize, usize)> = BTreeSet::new();
                        for r in [r1, r2, r3] {
                            let (a, b, c) = (grid(0, r % 3), grid(1, (r / 3) % 3), grid(2, r / 9));
                            edges.extend([(0, a), (a, b), (b, c), (c, 1)]);
                        }
                        edges.extend([(0, x), (x, y), (y, z), (z, 2 + target)]);
                        let ev: Vec<(usize, usize)> = edges.into_iter().collect();
                        for l in &labelings {
                            check_flow_case(ctx, "routes", n, &ev, l, 0, 1, false);
                            if ctx.nviolations() > 0 {
                                break;
                            }
                        }
                        ctx.add("route_networks", 1);
                    }
                }
            }
        }
        // self-check of the flow oracle on the layered networks of width 2, 2, 2 (8 vertices, all edge subsets)
        if ctx.shard == 0 {
            let opt: Vec<(usize, usize)> = vec![(2, 4), (2, 5), (3, 4), (3, 5), (4, 6), (4, 7), (5, 6), (5, 7), (6, 3), (7, 2), (5, 2), (6, 4)];
            for mask in 0u32..(1 << opt.len()) {
                let mut e: Vec<(usize, usize)> = vec![(0, 2), (0, 3), (6, 1), (7, 1)];
                e.extend((0..opt.len()).filter(|&k| mask >> k & 1 == 1).map(|k| opt[k]));
                check_flow_case(ctx, "routes-selfcheck", 8, &e, &ident[..8], 0, 1, true);
            }
        }
    }
    // family forward / undirected
    let n = tier.pick(6, 7);
    let pairs: Vec<(usize, usize)> = (0..n).flat_map(|a| ((a + 1)..n).map(move |b| (a, b))).collect();
    let m = pairs.len();
    for mask in 1u32..(1u32 << m) {
        if ctx.take() {
            let edges: Vec<(usize, usize)> = (0..m).filter(|&k| mask >> k & 1 == 1).map(|k| pairs[k]).collect();
            check_graph(ctx, "forward", n, &edges, &ident[..n], true, true);
        }
    }
}

fn replay(ctx: &mut Ctx, case: &Value) {
    let n = case["n"].as_u64().unwrap_or(2) as usize;
    let edges: Vec<(usize, usize)> = case["edges"]
        .as_array()
        .map(|a| a.iter().map(|e| (e[0].as_u64().unwrap_or(0) as usize, e[1].as_u64().unwrap_or(0) as usize)).collect())
        .unwrap_or_default();
    let label = crate::util::usize_list(&case["labels"]);
    let und = case["undirected"].as_bool().unwrap_or(false);
    check_graph(ctx, "replay", n, &edges, &label, !und, und);
}
