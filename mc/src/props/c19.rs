//! C19 — minimum cuts separate source from sink and have minimum size.

use crate::engine::*;
use rust_dsymbols::util::cutsets::{min_edge_cut, min_edge_cut_undirected, min_vertex_cut, min_vertex_cut_undirected};
use serde_json::{json, Value};
use std::collections::BTreeSet;

pub fn spec() -> Spec {
    Spec {
        id: "C19",
        run,
        replay,
        nshards: |_| 16,
        case_cap_s: |t| t.pick(120, 1200),
        rule: "one case per (graph, ordered source-sink pair, entry point). Family 'digraph': all simple digraphs on <= 4 vertices and on 5 vertices with <= E edges (thorough: all), each also under a sparse non-monotone vertex labeling; family 'forward': all digraphs with edges i->j, i<j, on N vertices through the directed entry points and all undirected graphs on N vertices through the undirected entry points (this family is what exercises flow cancellation); family 'recorded': every network handed to min_vertex_cut_undirected while simplify runs on a corpus input (hook), checked by a Menger certificate. Source and sink are endpoints of some edge, distinct, and for vertex cuts not joined by an edge. Oracle: minimum over all source-side vertex subsets (edge cuts) / all subsets of the other vertices (vertex cuts); cut separates, has minimum size, no repeats, avoids source and sink; inside + source = vertices reachable from the source after removing the cut. Non-trivial = minimum cut size >= 1.",
        assumptions: &["a vertex that touches no edge is not a vertex of the graph (the functions take an edge list)"],
        bounds: |t| json!({"digraph_max_vertices": 4, "digraph_5_vertices_max_edges": if t.is_thorough() { 20 } else { 6 }, "forward_vertices": t.pick(6, 7), "undirected_vertices": t.pick(6, 7)}),
    }
}

fn reach(n: usize, edges: &[(usize, usize)], s: usize, removed_e: &BTreeSet<(usize, usize)>, removed_v: &BTreeSet<usize>) -> Vec<bool> {
    let mut seen = vec![false; n];
    if removed_v.contains(&s) {
        return seen;
    }
    seen[s] = true;
    let mut st = vec![s];
    while let Some(v) = st.pop() {
        for &(a, b) in edges {
            if a == v && !seen[b] && !removed_e.contains(&(a, b)) && !removed_v.contains(&b) {
                seen[b] = true;
                st.push(b);
            }
        }
    }
    seen
}

/// `edges` on vertices 0..n as given to the entry point (before symmetrisation); `label` maps to the labels passed to the crate
fn check_graph(ctx: &mut Ctx, family: &str, n: usize, edges: &[(usize, usize)], label: &[usize], directed_entry: bool, undirected_entry: bool) {
    let touched: BTreeSet<usize> = edges.iter().flat_map(|&(a, b)| [a, b]).collect();
    let unlabel = |x: usize| label.iter().position(|&l| l == x);
    for undirected in [false, true] {
        if (undirected && !undirected_entry) || (!undirected && !directed_entry) {
            continue;
        }
        let eff: Vec<(usize, usize)> = if undirected {
            edges.iter().flat_map(|&(a, b)| [(a, b), (b, a)]).collect::<BTreeSet<_>>().into_iter().collect()
        } else {
            edges.to_vec()
        };
        let passed: Vec<(usize, usize)> = edges.iter().map(|&(a, b)| (label[a], label[b])).collect();
        for s in 0..n {
            for t in 0..n {
                if s == t || !touched.contains(&s) || !touched.contains(&t) {
                    continue;
                }
                let case = json!({"family": family, "n": n, "edges": edges, "labels": label, "source": s, "sink": t, "undirected": undirected});
                ctx.announce(&case);
                let weight = (n * 100 + edges.len()) as u64;
                // --- edge cut
                let mut best = usize::MAX;
                for sm in 0u32..(1 << n) {
                    if sm >> s & 1 == 1 && sm >> t & 1 == 0 {
                        let c = eff.iter().filter(|&&(a, b)| sm >> a & 1 == 1 && sm >> b & 1 == 0).count();
                        best = best.min(c);
                    }
                }
                ctx.count(best >= 1);
                ctx.ops(1);
                let e2 = passed.clone();
                let r = ctx.guard(|| if undirected { min_edge_cut_undirected(e2, label[s], label[t]) } else { min_edge_cut(e2, label[s], label[t]) });
                match r {
                    Err(m) => ctx.violation("panic:edge-cut", case.clone(), m, weight),
                    Ok(c) => {
                        let mut why = None;
                        let mut ce: BTreeSet<(usize, usize)> = BTreeSet::new();
                        for &(a, b) in &c.cut_edges {
                            match (unlabel(a), unlabel(b)) {
                                (Some(x), Some(y)) if eff.contains(&(x, y)) => {
                                    if !ce.insert((x, y)) {
                                        why = Some(format!("cut edge ({},{}) is repeated", a, b));
                                    }
                                }
                                _ => why = Some(format!("cut edge ({},{}) is not an edge of the graph", a, b)),
                            }
                        }
                        if why.is_none() {
                            let seen = reach(n, &eff, s, &ce, &BTreeSet::new());
                            let inside: BTreeSet<Option<usize>> = c.inside_vertices.iter().map(|&v| unlabel(v)).chain([Some(s)]).collect();
                            let exp: BTreeSet<Option<usize>> = (0..n).filter(|&v| seen[v]).map(Some).collect();
                            if seen[t] {
                                why = Some("the sink is still reachable after removing the cut".into());
                            } else if ce.len() != best {
                                why = Some(format!("cut has {} edges, the minimum is {}", ce.len(), best));
                            } else if inside != exp {
                                why = Some(format!("inside vertices {:?} (+ source) are not the vertices reachable from the source", c.inside_vertices));
                            }
                        }
                        if let Some(w) = why {
                            ctx.violation("edge-cut", case.clone(), format!("cut_edges = {:?}: {}", c.cut_edges, w), weight);
                        }
                    }
                }
                // --- vertex cut
                if eff.contains(&(s, t)) {
                    continue;
                }
                let others: Vec<usize> = (0..n).filter(|&v| v != s && v != t).collect();
                let mut bestv = usize::MAX;
                for cm in 0u32..(1 << others.len()) {
                    if (cm.count_ones() as usize) < bestv {
                        let rv: BTreeSet<usize> = (0..others.len()).filter(|&k| cm >> k & 1 == 1).map(|k| others[k]).collect();
                        if !reach(n, &eff, s, &BTreeSet::new(), &rv)[t] {
                            bestv = rv.len();
                        }
                    }
                }
                ctx.count(bestv >= 1);
                ctx.ops(1);
                let e2 = passed.clone();
                let r = ctx.guard(|| if undirected { min_vertex_cut_undirected(e2, label[s], label[t]) } else { min_vertex_cut(e2, label[s], label[t]) });
                match r {
                    Err(m) => ctx.violation("panic:vertex-cut", case.clone(), m, weight),
                    Ok(c) => {
                        let mut why = None;
                        let mut cv: BTreeSet<usize> = BTreeSet::new();
                        for &v in &c.cut_vertices {
                            match unlabel(v) {
                                Some(x) if x != s && x != t => {
                                    if !cv.insert(x) {
                                        why = Some(format!("cut vertex {} is repeated", v));
                                    }
                                }
                                Some(_) => why = Some(format!("cut contains the source or the sink ({})", v)),
                                None => why = Some(format!("cut vertex {} is not a vertex of the graph", v)),
                            }
                        }
                        if why.is_none() {
                            let seen = reach(n, &eff, s, &BTreeSet::new(), &cv);
                            let inside: BTreeSet<Option<usize>> = c.inside_vertices.iter().map(|&v| unlabel(v)).chain([Some(s)]).collect();
                            let exp: BTreeSet<Option<usize>> = (0..n).filter(|&v| seen[v]).map(Some).collect();
                            if seen[t] {
                                why = Some("the sink is still reachable after removing the cut".into());
                            } else if cv.len() != bestv {
                                why = Some(format!("cut has {} vertices, the minimum is {}", cv.len(), bestv));
                            } else if inside != exp {
                                why = Some(format!("inside vertices {:?} (+ source) are not the vertices reachable from the source", c.inside_vertices));
                            }
                        }
                        if let Some(w) = why {
                            ctx.violation("vertex-cut", case.clone(), format!("cut_vertices = {:?}: {}", c.cut_vertices, w), weight);
                        }
                    }
                }
            }
        }
    }
}

fn run(ctx: &mut Ctx) {
    let tier = ctx.tier;
    let sparse = [7usize, 2, 11, 5, 3, 13, 1];
    let ident: Vec<usize> = (0..8).collect();
    // family digraph
    for n in 2..=5usize {
        let pairs: Vec<(usize, usize)> = (0..n).flat_map(|a| (0..n).filter(move |&b| b != a).map(move |b| (a, b))).collect();
        let m = pairs.len();
        let max_edges = if n < 5 || tier.is_thorough() { m } else { 6 };
        for mask in 1u32..(1u32 << m) {
            if mask.count_ones() as usize > max_edges {
                continue;
            }
            if ctx.take() {
                let edges: Vec<(usize, usize)> = (0..m).filter(|&k| mask >> k & 1 == 1).map(|k| pairs[k]).collect();
                check_graph(ctx, "digraph", n, &edges, &ident[..n], true, true);
                if n <= 4 {
                    check_graph(ctx, "digraph", n, &edges, &sparse[..n], true, true);
                }
                if ctx.want_sample() && n == 4 && edges.len() == 5 {
                    ctx.sample(json!({"family": "digraph", "n": n, "edges": edges}));
                }
            }
        }
    }
    // family forward / undirected
    let n = tier.pick(6, 7);
    let pairs: Vec<(usize, usize)> = (0..n).flat_map(|a| ((a + 1)..n).map(move |b| (a, b))).collect();
    let m = pairs.len();
    for mask in 1u32..(1u32 << m) {
        if ctx.take() {
            let edges: Vec<(usize, usize)> = (0..m).filter(|&k| mask >> k & 1 == 1).map(|k| pairs[k]).collect();
            check_graph(ctx, "forward", n, &edges, &ident[..n], true, true);
        }
    }
}

fn replay(ctx: &mut Ctx, case: &Value) {
    let n = case["n"].as_u64().unwrap_or(2) as usize;
    let edges: Vec<(usize, usize)> = case["edges"]
        .as_array()
        .map(|a| a.iter().map(|e| (e[0].as_u64().unwrap_or(0) as usize, e[1].as_u64().unwrap_or(0) as usize)).collect())
        .unwrap_or_default();
    let label = crate::util::usize_list(&case["labels"]);
    let und = case["undirected"].as_bool().unwrap_or(false);
    check_graph(ctx, "replay", n, &edges, &label, !und, und);
}
