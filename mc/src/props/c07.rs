//! C07 — the D-symbol generator is sound, complete and irredundant per geometry.

use crate::engine::*;
use crate::enumerate::symbols::*;
use crate::refmodel::conway::*;
use crate::refmodel::dsym::*;
use crate::util::*;
use rust_dsymbols::dsets::{DSet, SimpleDSet};
use rust_dsymbols::generators::dset_generators::DSets;
use rust_dsymbols::generators::dsym_generators::{DSyms, Geometries};
use serde_json::{json, Value};
use std::collections::{BTreeMap, BTreeSet};

pub fn spec() -> Spec {
    Spec {
        id: "C07",
        run,
        replay,
        nshards: |_| 16,
        case_cap_s: |t| t.pick(300, 3600),
        rule: "one case per (connected complete 2-dimensional D-set, geometry): every output of DSets(2, <= N) in the generator's numbering, every relabeling of the D-sets of size <= 4, x {spherical, euclidean, hyperbolic, all}. The oracle enumerates, depth-first with monotone curvature pruning, ALL branching vectors with minimal degree 3 and v <= 10 (10 exceeds every admissible value: euclidean cone orders are <= 6, a minimally hyperbolic vector other than the all-minimal one has K >= -1, spherical ones are capped at 7 by the statement), classifies them by exact curvature, minimal hyperbolicity and the orbifold computed from the definitions, and reduces them modulo the brute-force automorphism group of the D-set. Each geometry's output must be on exactly the input D-set, complete, of degree >= 3, consecutively numbered, of the right curvature sign, and hit each expected class exactly once; 'all' = disjoint union. Non-trivial = at least one expected symbol.",
        assumptions: &["DSets supplies the D-sets (validated by C06); each is re-read into the reference model before use", "the list of good spherical orbifolds is the fixed list of the statement, copied into the harness"],
        bounds: |t| json!({"dsets_max_size": t.pick(16, 18), "all_relabelings_up_to_size": 4, "polyhedral_sets_max_size": t.pick(48, 120), "oracle_v_max": 10}),
    }
}

const GOOD: [&str; 31] = [
    "", "*", "x", "532", "432", "332", "422", "322", "222", "44", "33", "22", "*532", "*432", "*332", "3*2", "*422", "*322", "*222", "2*4", "2*3", "2*2", "*44", "*33", "*22",
    "4*", "3*", "2*", "4x", "3x", "2x",
];

const DEN: i64 = 2520; // lcm(1..=10)

struct Orbits {
    /// (index i, members, r, is_chain, vmin)
    list: Vec<(usize, Vec<usize>, usize, bool, usize)>,
}

fn orbits_of(ops: &Vec<Vec<usize>>) -> Orbits {
    let plain = RS::from_ops(ops.clone());
    let mut list = vec![];
    for (i, mem) in two_orbits(ops) {
        let r = plain.r(i, i + 1, mem[0]);
        let chain = mem.iter().any(|&d| ops[i][d] == d || ops[i + 1][d] == d);
        let vmin = (3 + r - 1) / r;
        list.push((i, mem, r, chain, vmin));
    }
    Orbits { list }
}

fn curvature_scaled(orb: &Orbits, n: usize, vs: &[usize]) -> i64 {
    let mut k = -(DEN / 2) * n as i64;
    for (t, o) in orb.list.iter().enumerate() {
        let w = if o.3 { 1 } else { 2 };
        k += w * DEN / vs[t] as i64;
    }
    k
}

/// the all-minimal vector plus all branching vectors with K >= -1 (scaled), v in vmin..=10
fn candidate_vectors(orb: &Orbits, n: usize) -> Vec<(Vec<usize>, i64)> {
    let m = orb.list.len();
    let mut out = vec![];
    let mut vs: Vec<usize> = orb.list.iter().map(|o| o.4).collect();
    fn rec(orb: &Orbits, n: usize, t: usize, vs: &mut Vec<usize>, out: &mut Vec<(Vec<usize>, i64)>) {
        let m = orb.list.len();
        if t == m {
            let k = curvature_scaled(orb, n, vs);
            if k >= -DEN {
                out.push((vs.clone(), k));
            }
            return;
        }
        let vmin = orb.list[t].4;
        for v in vmin..=10 {
            vs[t] = v;
            // upper bound: remaining orbits at their minimum
            let mut upper = vs.clone();
            for u in (t + 1)..m {
                upper[u] = orb.list[u].4;
            }
            if curvature_scaled(orb, n, &upper) < -DEN {
                break;
            }
            rec(orb, n, t + 1, vs, out);
        }
        vs[t] = vmin;
    }
    rec(orb, n, 0, &mut vs, &mut out);
    let _ = m;
    // the all-minimal vector is a candidate whatever its curvature: nothing in it can be lowered,
    // so it is minimally hyperbolic even when K < -1 (the K >= -1 bound only holds for vectors with
    // some v above its minimum)
    let vmin: Vec<usize> = orb.list.iter().map(|o| o.4).collect();
    if !out.iter().any(|(v, _)| *v == vmin) {
        let k = curvature_scaled(orb, n, &vmin);
        out.push((vmin, k));
    }
    out
}

fn symbol_of(ops: &Vec<Vec<usize>>, orb: &Orbits, vs: &[usize]) -> RS {
    let n = ops[0].len();
    let mut v = vec![vec![0; n]; 2];
    for (t, o) in orb.list.iter().enumerate() {
        for &d in &o.1 {
            v[o.0][d] = vs[t];
        }
    }
    RS { n, ops: ops.clone(), v }
}

/// key in the generator's format: cones desc, "*" if there is a boundary, corners desc, "x" if non-orientable
fn simple_key(s: &RS) -> String {
    let o = orbifold_of(s);
    let mut cones = o.cones.clone();
    cones.sort();
    cones.reverse();
    let mut corners: Vec<i64> = o.bnds.iter().flatten().cloned().collect();
    corners.sort();
    corners.reverse();
    let mut k = String::new();
    for c in cones {
        k.push_str(&c.to_string());
    }
    if !o.bnds.is_empty() {
        k.push('*');
    }
    for c in corners {
        k.push_str(&c.to_string());
    }
    if o.caps > 0 {
        k.push('x');
    }
    k
}

fn check_dset(ctx: &mut Ctx, family: &str, ops: &Vec<Vec<usize>>) {
    let n = ops[0].len();
    let plain = RS::from_ops(ops.clone());
    let case0 = json!({"family": family, "set": rs_to_json(&plain)["ops"]});
    ctx.announce(&case0);
    let weight = n as u64;
    let orb = orbits_of(ops);
    let cands = candidate_vectors(&orb, n);
    // automorphisms of the D-set as permutations of the orbits
    let auts = plain.automorphisms();
    let orbit_of_chamber: Vec<BTreeMap<usize, usize>> = (0..2)
        .map(|i| {
            let mut m = BTreeMap::new();
            for (t, o) in orb.list.iter().enumerate() {
                if o.0 == i {
                    for &d in &o.1 {
                        m.insert(d, t);
                    }
                }
            }
            m
        })
        .collect();
    let orbit_perms: Vec<Vec<usize>> = auts
        .iter()
        .map(|f| orb.list.iter().map(|o| orbit_of_chamber[o.0][&f[o.1[0]]]).collect())
        .collect();
    let canon = |vs: &[usize]| -> Vec<usize> {
        orbit_perms
            .iter()
            .map(|p| {
                // vector pulled back along the automorphism: w[t] = vs[p[t]]
                (0..vs.len()).map(|t| vs[p[t]]).collect::<Vec<usize>>()
            })
            .min()
            .unwrap()
    };
    let vmins: Vec<usize> = orb.list.iter().map(|o| o.4).collect();
    let mut exp: BTreeMap<&'static str, BTreeSet<Vec<usize>>> = BTreeMap::new();
    for g in ["S", "E", "H"] {
        exp.insert(g, BTreeSet::new());
    }
    for (vs, k) in &cands {
        if *k == 0 {
            exp.get_mut("E").unwrap().insert(canon(vs));
        } else if *k < 0 {
            let minimal = (0..vs.len()).all(|t| {
                if vs[t] > vmins[t] {
                    let mut w = vs.clone();
                    w[t] -= 1;
                    curvature_scaled(&orb, n, &w) >= 0
                } else {
                    true
                }
            });
            if minimal {
                exp.get_mut("H").unwrap().insert(canon(vs));
            }
        } else if vs.iter().all(|&v| v <= 7) {
            let key = simple_key(&symbol_of(ops, &orb, vs));
            if GOOD.contains(&key.as_str()) {
                exp.get_mut("S").unwrap().insert(canon(vs));
            }
        }
    }
    let ds: SimpleDSet = match ctx.guard(|| SimpleDSet::from(to_partial_dset(&plain))) {
        Ok(d) => d,
        Err(m) => {
            ctx.violation("panic:build", case0, m, weight);
            return;
        }
    };
    let mut union: BTreeSet<Vec<usize>> = BTreeSet::new();
    let mut total_expected = 0;
    for (gname, geo) in [("S", Geometries::Spherical), ("E", Geometries::Euclidean), ("H", Geometries::Hyperbolic), ("All", Geometries::All)] {
        let case = json!({"family": family, "set": rs_to_json(&plain)["ops"], "geometry": gname});
        ctx.announce(&case);
        let expected: BTreeSet<Vec<usize>> = if gname == "All" { exp.values().flatten().cloned().collect() } else { exp[gname].clone() };
        if gname != "All" {
            total_expected += expected.len();
        }
        ctx.count(!expected.is_empty());
        ctx.ops(1);
        let outs = match ctx.guard(|| DSyms::new(&ds, geo).collect::<Vec<_>>()) {
            Ok(v) => v,
            Err(m) => {
                ctx.violation("panic:DSyms", case, m, weight);
                continue;
            }
        };
        if ctx.want_sample() && outs.len() >= 2 && n >= 3 {
            ctx.sample(json!({"case": case, "outputs": outs.iter().map(|o| o.to_string()).collect::<Vec<_>>()}));
        }
        let mut got: BTreeSet<Vec<usize>> = BTreeSet::new();
        for (k, sy) in outs.iter().enumerate() {
            let s = match from_dsym(sy) {
                Some(s) => s,
                None => {
                    ctx.violation("incomplete", case.clone(), format!("output {} is not complete", sy), weight);
                    continue;
                }
            };
            if s.ops != *ops {
                ctx.violation("other-set", case.clone(), format!("output {} is not on the input D-set", sy), weight);
                continue;
            }
            if sy.symbol_count() != k + 1 {
                ctx.violation("numbering", case.clone(), format!("output number {} carries counter {}", k + 1, sy.symbol_count()), weight);
            }
            if valid_symbol(&s).is_err() {
                ctx.violation("invalid", case.clone(), format!("output {} is not a valid symbol", sy), weight);
                continue;
            }
            if (0..2).any(|i| (0..n).any(|d| s.m_adj(i, d) < 3)) {
                ctx.violation("degree", case.clone(), format!("output {} has a degree below 3", sy), weight);
            }
            let vs: Vec<usize> = orb.list.iter().map(|o| s.v[o.0][o.1[0]]).collect();
            let (kn, _) = s.curvature2d();
            let sign_ok = match gname {
                "S" => kn > 0,
                "E" => kn == 0,
                "H" => kn < 0,
                _ => true,
            };
            if !sign_ok {
                ctx.violation("curvature-sign", case.clone(), format!("output {} has curvature of the wrong sign", sy), weight);
            }
            if !got.insert(canon(&vs)) {
                ctx.violation("redundant", case.clone(), format!("output {} is isomorphic to an earlier output", sy), weight);
            }
        }
        if got != expected {
            let missing: Vec<&Vec<usize>> = expected.difference(&got).collect();
            let extra: Vec<&Vec<usize>> = got.difference(&expected).collect();
            ctx.violation(
                "class-set",
                case.clone(),
                format!("{} outputs; expected {} classes; missing branching vectors (per 2-orbit) {:?}; unexpected {:?}; orbits (index, r, chain, vmin) {:?}; candidates with K >= -1: {}", outs.len(), expected.len(), missing, extra, orb.list.iter().map(|o| (o.0, o.2, o.3, o.4)).collect::<Vec<_>>(), cands.len()),
                weight,
            );
        }
        if gname != "All" {
            let before = union.len();
            union.extend(got.iter().cloned());
            if union.len() != before + got.len() {
                ctx.violation("not-disjoint", case.clone(), "the geometries' outputs overlap".into(), weight);
            }
        }
    }
    ctx.add("expected_symbols", total_expected as i64);
}

fn run(ctx: &mut Ctx) {
    let tier = ctx.tier;
    // the generator is consumed as a stream (every worker walks it and keeps its own share), so that the
    // thorough bound is not limited by holding several million D-sets per worker
    polyhedral_family(ctx);
    let mut it = ctx.supply("DSets::new", || Some(DSets::new(2, tier.pick(16, 18))));
    loop {
        let next = match it.as_mut() {
            None => break,
            Some(g) => match ctx.guard(|| g.next()) {
                Ok(x) => x,
                Err(msg) => {
                    ctx.cap_hit(format!("input supplier DSets::next panicked ({}): the rest of the family was NOT explored", msg));
                    break;
                }
            },
        };
        let ds = match next {
            Some(d) => d,
            None => break,
        };
        if !ctx.take() {
            continue;
        }
        let plain = match from_dset(&ds) {
            Some(p) if p.is_involutive() && p.is_connected() => p,
            _ => continue, // C06's business
        };
        check_dset(ctx, "generated", &plain.ops);
        if ds.size() <= 4 {
            let mut seen = BTreeSet::new();
            for p in perms(plain.n) {
                let t = plain.relabel(&p);
                if t != plain && seen.insert(t.ops.clone()) {
                    check_dset(ctx, "relabeled", &t.ops);
                }
            }
        }
    }
}

/// flag D-sets of the regular maps on the sphere and their quotients (coset D-sets of the finite Coxeter groups
/// [3,3], [4,3], [5,3], [2,12], [7,2], built by the reference Todd-Coxeter): the only D-sets on which curvatures
/// above 2 (trivial symmetry group: the plain sphere) occur; the smallest has 24 chambers, far beyond the generator sweep
fn polyhedral_family(ctx: &mut Ctx) {
    let cap = ctx.tier.pick(48, 120);
    for (name, c) in coxeter_symbols(cap) {
        if c.ops.len() != 3 || c.n < 6 || !ctx.take() {
            continue;
        }
        ctx.add("polyhedral_sets", 1);
        ctx.max("largest_set", c.n as i64);
        let _ = name;
        check_dset(ctx, "polyhedral", &c.ops);
    }
}

fn replay(ctx: &mut Ctx, case: &Value) {
    let ops: Vec<Vec<usize>> = case["set"].as_array().map(|a| a.iter().map(|o| usize_list(o).into_iter().map(|x| x - 1).collect()).collect()).unwrap_or_default();
    if !ops.is_empty() {
        check_dset(ctx, "replay", &ops);
    }
}
