//! C08 — 2D curvature, orbifold symbol and geometry class are mutually consistent.

use crate::engine::*;
use crate::enumerate::symbols::*;
use crate::props::c04::two_sheeted_covers;
use crate::refmodel::conway::*;
use crate::refmodel::dsym::*;
use crate::util::*;
use num_rational::Rational64;
use rust_dsymbols::covers::covers;
use rust_dsymbols::delaney2d::{curvature, is_euclidean, is_hyperbolic, is_spherical, orbifold_symbol};
use rust_dsymbols::derived::{dual, oriented_cover};
use rust_dsymbols::dsyms::SimpleDSym;
use serde_json::{json, Value};

pub fn spec() -> Spec {
    Spec {
        id: "C08",
        run,
        replay,
        nshards: |_| 16,
        case_cap_s: |t| t.pick(300, 3600),
        rule: "one case per connected complete 2-dimensional symbol: every labeled symbol of size <= 4 (all renumberings) and every class representative of size 5 (thorough: up to 7, with systematic renumberings) x every branching vector over {1,2,3,4,5,11}. Clauses: curvature = sum over chambers of 1/m01 + 1/m12 - 1/2 (definition); curvature = 2 * chi(parse(orbifold_symbol)); symbol (normalised over cone order, component order, rotation and reversal of corner lists) and curvature equal to those of the class representative and of the dual; curvature of harness-built 2-sheeted covers, of oriented_cover and of covers(s, <= 3) = sheets * curvature; is_euclidean/is_hyperbolic/is_spherical against the sign of K and the tear-drop/spindle test on the orbifold computed from the definitions by the reference model. Non-trivial = size >= 2 or some branching > 1.",
        assumptions: &["what covers(s, k) and oriented_cover return is taken to be a cover with sheet number = size ratio (whether it is a covering is C05's clause); harness-built 2-sheeted covers are verified coverings"],
        bounds: |t| json!({"labeled_max_size": 4, "class_representatives_size": t.pick(7, 8), "V": [1,2,3,4,5,11], "coprime_polygon_family": "mirror polygons with 4-11 [13] corners of pairwise coprime orders from {41, ..., 97}, 14 rotations of the list each; as given, reversed, dual", "large_family": "2D Coxeter coset symbols of 6-120 [384] chambers and every 7th [2nd] generator representative of 9-12 [14] chambers (unbranched, one branched orbit), as given and in 2 renumberings", "degree_boundary_family": "sizes <= 3 [4], values 1-13, 19-21, 99-101, 999, 1000 on <= 2 orbits (1 orbit above size 2)", "size_5_plus_V": t.pick(json!([1,2,3,4,5,11]), json!([1,2,3,5,11])),
            "crate_covers_max_sheets": 3, "crate_covers_on_sizes_up_to": t.pick(3, 4)}),
    }
}

fn frac(k: Rational64) -> (i64, i64) {
    (*k.numer(), *k.denom())
}

struct Obs {
    k: (i64, i64),
    orb: Option<Orb>,
    text: String,
}

fn observe<T: rust_dsymbols::dsyms::DSym>(ds: &T) -> (Obs, (bool, bool, bool)) {
    let k = frac(curvature(ds));
    let text = orbifold_symbol(ds);
    let orb = parse_orb(&text);
    (Obs { k, orb, text }, (is_euclidean(ds), is_hyperbolic(ds), is_spherical(ds)))
}

fn check_symbol(ctx: &mut Ctx, family: &str, s: &RS, rep: Option<&RS>, with_covers: bool) {
    let case = json!({"family": family, "sym": rs_to_json(s)});
    ctx.announce(&case);
    let weight = (s.n * 100) as u64 + s.v.iter().map(|r| r.iter().sum::<usize>()).sum::<usize>() as u64;
    ctx.count(s.n >= 2 || s.v.iter().any(|r| r.iter().any(|&x| x > 1)));
    let kdef = s.curvature2d();
    ctx.ops(8);
    let r = ctx.guard(|| {
        let cs = to_partial_dsym(s);
        let sd: SimpleDSym = cs.clone().into();
        let a = observe(&cs);
        let b = observe(&sd);
        let d = observe(&dual(&cs));
        (a, b, d)
    });
    let ((o, preds), (o2, preds2), (od, _)) = match r {
        Ok(x) => x,
        Err(m) => {
            ctx.violation("panic", case, m, weight);
            return;
        }
    };
    if ctx.want_sample() && s.n >= 3 && o.text.len() >= 3 {
        ctx.sample(json!({"case": case, "curvature": format!("{}/{}", o.k.0, o.k.1), "orbifold_symbol": o.text}));
    }
    if o.k != kdef {
        ctx.violation("curvature-definition", case.clone(), format!("curvature = {}/{}, the definition gives {}/{}", o.k.0, o.k.1, kdef.0, kdef.1), weight);
        return;
    }
    if o2.k != o.k || o2.text != o.text || preds2 != preds {
        ctx.violation("representation", case.clone(), "PartialDSym and SimpleDSym give different answers".into(), weight);
    }
    let orb = match &o.orb {
        Some(x) => x.clone(),
        None => {
            ctx.violation("symbol-syntax", case.clone(), format!("orbifold symbol {:?} is not a Conway symbol", o.text), weight);
            return;
        }
    };
    // Gauss-Bonnet: K = 2 chi
    let (cn, cd) = chi(&orb);
    if o.k.0 * cd != 2 * cn * o.k.1 {
        ctx.violation("gauss-bonnet", case.clone(), format!("curvature {}/{} but the orbifold {:?} has Euler characteristic {}/{}", o.k.0, o.k.1, o.text, cn, cd), weight);
        return;
    }
    // dual
    if od.k != o.k || od.orb.as_ref().map(normalize) != Some(normalize(&orb)) {
        ctx.violation("dual", case.clone(), format!("symbol: K = {}/{} {:?}; dual: K = {}/{} {:?}", o.k.0, o.k.1, o.text, od.k.0, od.k.1, od.text), weight);
    }
    // renumbering: same as the class representative
    if let Some(rep) = rep {
        if rep != s {
            ctx.ops(2);
            match ctx.guard(|| observe(&to_partial_dsym(rep))) {
                Ok((orr, predr)) => {
                    if orr.k != o.k || orr.orb.as_ref().map(normalize) != Some(normalize(&orb)) || predr != preds {
                        ctx.violation("renumbering", case.clone(), format!("this numbering: K = {}/{} {:?} {:?}; renumbered {}: K = {}/{} {:?} {:?}", o.k.0, o.k.1, o.text, preds, rep.describe(), orr.k.0, orr.k.1, orr.text, predr), weight);
                    }
                }
                Err(m) => ctx.violation("panic", case.clone(), m, weight),
            }
        }
    }
    // predicates
    let bad = is_bad(&orbifold_of(s));
    let exp = (kdef.0 == 0, kdef.0 < 0, kdef.0 > 0 && !bad);
    if preds != exp {
        ctx.violation("predicates", case.clone(), format!("(euclidean, hyperbolic, spherical) = {:?}, expected {:?} (K = {}/{}, orbifold {:?}, tear-drop/spindle = {})", preds, exp, kdef.0, kdef.1, o.text, bad), weight);
    }
    // covers
    if with_covers {
        let mut covs: Vec<(String, RS)> = two_sheeted_covers(s).into_iter().map(|c| ("harness 2-sheeted".to_string(), c)).collect();
        if let Ok(Some(oc)) = ctx.guard(|| from_dsym(&oriented_cover(&to_partial_dsym(s)))) {
            covs.push(("oriented_cover".into(), oc));
        }
        if s.n <= ctx.tier.pick(3, 4) {
            if let Ok(cv) = ctx.guard(|| covers(&to_partial_dsym(s), 3)) {
                for c in cv {
                    if let Some(rc) = from_dsym(&c) {
                        covs.push(("covers()".into(), rc));
                    }
                }
            }
        }
        for (what, c) in covs {
            if valid_symbol(&c).is_err() || !c.commutes() {
                continue;
            }
            // harness-built covers are verified coverings by construction of the list; what the crate returns as a
            // cover is taken at its word (sheet number = size ratio): if it is not a covering, C05 says so, and
            // the curvature clause of this property fails with it
            let sheets = if what == "harness 2-sheeted" { c.covers(s) } else if c.n % s.n == 0 && c.n > 0 { Some(c.n / s.n) } else { None };
            if let Some(k) = sheets {
                ctx.ops(1);
                ctx.add("covers_checked", 1);
                match ctx.guard(|| frac(curvature(&to_partial_dsym(&c)))) {
                    Ok(kc) => {
                        if kc.0 * o.k.1 != (k as i64) * o.k.0 * kc.1 {
                            ctx.violation("cover-curvature", case.clone(), format!("{} with {} sheets has curvature {}/{}, the base {}/{}", what, k, kc.0, kc.1, o.k.0, o.k.1), weight);
                        }
                    }
                    Err(m) => ctx.violation("panic", case.clone(), format!("curvature of {}: {}", what, m), weight),
                }
            }
        }
    }
}

/// exact fraction arithmetic in i128 (for symbols with many pairwise coprime degrees, where i64 is too small)
fn frac_add(x: (i128, i128), a: i128, b: i128) -> (i128, i128) {
    fn g(mut a: i128, mut b: i128) -> i128 {
        while b != 0 {
            let t = a % b;
            a = b;
            b = t;
        }
        a.abs()
    }
    let num = x.0 * b + a * x.1;
    let den = x.1 * b;
    let d = g(num, den).max(1);
    (num / d, den / d)
}

/// mirror polygons with pairwise coprime corner orders: a chain of 2k chambers (s0 pairs (1 2)(3 4)..., s1 pairs
/// (2 3)(4 5)... with both ends fixed, s2 the identity), one face, k + 1 corners.  The common denominator of the
/// curvature is the product of the corner orders: beyond i64 from about ten corners on, while the value itself
/// still fits.  Checked: curvature against the definition in i128 arithmetic whenever the exact value is
/// representable, sign predicates, and the curvature of the dual and of the reversed numbering.
fn coprime_polygons(ctx: &mut Ctx) {
    let pool: Vec<usize> = vec![41, 43, 47, 53, 59, 61, 67, 71, 73, 79, 81, 83, 89, 97];
    for k in 3..=ctx.tier.pick(10usize, 12usize) {
        for start in 0..pool.len() {
            if !ctx.take() {
                continue;
            }
            let n = 2 * k;
            let mut s0: Vec<usize> = (0..n).collect();
            let mut s1: Vec<usize> = (0..n).collect();
            for j in 0..k {
                s0[2 * j] = 2 * j + 1;
                s0[2 * j + 1] = 2 * j;
            }
            for j in 0..k - 1 {
                s1[2 * j + 1] = 2 * j + 2;
                s1[2 * j + 2] = 2 * j + 1;
            }
            let ops = vec![s0, s1.clone(), (0..n).collect::<Vec<usize>>()];
            // corners: chamber 0 alone, pairs (2j+1, 2j+2), chamber n-1 alone
            let mut v12 = vec![0usize; n];
            let mut c = 0;
            let val = |c: usize| pool[(start + c) % pool.len()];
            v12[0] = val(c);
            c += 1;
            for j in 0..k - 1 {
                v12[2 * j + 1] = val(c);
                v12[2 * j + 2] = val(c);
                c += 1;
            }
            v12[n - 1] = val(c);
            let s = RS { n, ops, v: vec![vec![1; n], v12] };
            if valid_symbol(&s).is_err() {
                ctx.add("coprime_polygons_rejected_by_reference_model", 1);
                continue;
            }
            let case = json!({"family": "coprime-polygon", "sym": rs_to_json(&s)});
            ctx.announce(&case);
            ctx.count(true);
            ctx.add("coprime_polygons", 1);
            // definition: sum over chambers of 1/m01 + 1/m12 - 1/2
            let mut kdef = (0i128, 1i128);
            for d in 0..n {
                kdef = frac_add(kdef, 1, s.m_adj(0, d) as i128);
                kdef = frac_add(kdef, 1, s.m_adj(1, d) as i128);
                kdef = frac_add(kdef, -1, 2);
            }
            let fits = kdef.0.abs() <= i64::MAX as i128 && kdef.1 <= i64::MAX as i128;
            if !fits {
                ctx.add("coprime_polygons_value_beyond_i64", 1);
                continue;
            }
            let rev: Vec<usize> = (0..n).rev().collect();
            for (what, t) in [("as given", s.clone()), ("reversed numbering", s.relabel(&rev)), ("dual", s.dual())] {
                ctx.ops(1);
                match ctx.guard(|| {
                    let cs = to_partial_dsym(&t);
                    (frac(curvature(&cs)), is_euclidean(&cs), is_hyperbolic(&cs), is_spherical(&cs))
                }) {
                    Ok((kk, e, h, sp)) => {
                        if (kk.0 as i128, kk.1 as i128) != kdef {
                            ctx.violation("curvature-definition", case.clone(), format!("{}: curvature = {}/{}, the definition gives {}/{}", what, kk.0, kk.1, kdef.0, kdef.1), n as u64);
                            return;
                        }
                        if e != (kdef.0 == 0) || h != (kdef.0 < 0) || (sp && kdef.0 <= 0) {
                            ctx.violation("predicates", case.clone(), format!("{}: (euclidean, hyperbolic, spherical) = ({}, {}, {}) for curvature {}/{}", what, e, h, sp, kdef.0, kdef.1), n as u64);
                            return;
                        }
                    }
                    Err(m) => {
                        ctx.violation("panic", case.clone(), format!("{}: {}", what, m), n as u64);
                        return;
                    }
                }
            }
        }
    }
}

fn run(ctx: &mut Ctx) {
    let tier = ctx.tier;
    let vals = [1usize, 2, 3, 4, 5, 11];
    for n in 1..=4usize {
        for_each_labeled_set(2, n, true, &mut |ops| {
            if ops_connected(ops) {
                for_each_branching(ops, &vals, usize::MAX, &mut |s| {
                    if ctx.take() {
                        let rep = s.iso_key_all_perms();
                        // covers only on the class representatives (they are relabeling-invariant constructions)
                        check_symbol(ctx, "labeled", s, Some(&rep), &rep == s);
                    }
                });
            }
        });
    }
    coprime_polygons(ctx);
    if ctx.nviolations() > 0 {
        return;
    }
    // degree boundaries: the orbifold symbol writes degrees >= 10 in parentheses, so every value around the
    // one-digit / two-digit / three-digit boundaries is placed on one or two orbits of every small set
    let wide: Vec<usize> = vec![1, 2, 3, 4, 5, 6, 7, 8, 9, 10, 11, 12, 13, 19, 20, 21, 99, 100, 101, 999, 1000];
    for n in 1..=tier.pick(3, 4) {
        for_each_labeled_set(2, n, true, &mut |ops| {
            if ops_connected(ops) {
                for_each_branching(ops, &wide, if n <= 2 { 2 } else { 1 }, &mut |s| {
                    if s.v.iter().any(|row| row.iter().any(|&x| x > 5 && x != 11)) && ctx.take() {
                        let rep = s.iso_key_all_perms();
                        check_symbol(ctx, "degree-boundary", s, Some(&rep), false);
                    }
                });
            }
        });
    }
    // large symbols, many of them with mirrors and several boundary components: coset symbols of the finite
    // 2-dimensional Coxeter groups (6-120 [384] chambers), and mid-size generator representatives (sizes 9-12
    // [14], unbranched and one branched orbit), each as given and in two systematic renumberings
    {
        use rust_dsymbols::dsets::DSet;
        use rust_dsymbols::generators::dset_generators::DSets;
        let mut list: Vec<RS> = vec![];
        for (_, c) in coxeter_symbols(tier.pick(120, 384)) {
            if c.dim() == 2 && c.n >= 6 {
                list.push(c);
            }
        }
        let hi = tier.pick(12, 14);
        let sets = ctx.supply("DSets::new", || DSets::new(2, hi).filter(|d| d.size() >= 9).collect::<Vec<_>>());
        for (k, ds) in sets.iter().enumerate() {
            // every 7th [2nd] set: a spread over the whole list, loops and handles included
            if k % tier.pick(7, 2) != 0 {
                continue;
            }
            if let Some(plain) = from_dset(ds) {
                if plain.is_involutive() && plain.is_connected() {
                    for_each_branching(&plain.ops, &[1, 2, 3], 1, &mut |s| list.push(s.clone()));
                }
            }
        }
        for s in list {
            if !ctx.take() {
                continue;
            }
            ctx.add("large_symbols", 1);
            ctx.max("largest_symbol", s.n as i64);
            check_symbol(ctx, "large", &s, None, false);
            let rn = systematic_renumberings(s.n);
            for (name, p) in rn.iter() {
                if name == "reverse" || name == "shuffle-in" {
                    let t = s.relabel(p);
                    check_symbol(ctx, "large-renumbered", &t, Some(&s), false);
                }
            }
        }
    }
    // size 5 and up: one representative per class of D-sets (brute force over labeled sets, least labeling), systematic renumberings
    let vals_big: Vec<usize> = vec![1, 2, 3, 5, 11];
    for n in 5..=tier.pick(7, 8) {
        let mut reps: std::collections::BTreeSet<Vec<Vec<usize>>> = std::collections::BTreeSet::new();
        for_each_labeled_set(2, n, true, &mut |ops| {
            if ops_connected(ops) {
                let key = RS::from_ops(ops.clone()).iso_key_bfs();
                reps.insert(key.ops);
            }
        });
        for ops in reps {
            let rn = systematic_renumberings(n);
            for_each_branching(&ops, &vals_big, if n <= 5 { usize::MAX } else { 3 }, &mut |s| {
                if ctx.take() {
                    check_symbol(ctx, "representative", s, None, n <= 5);
                    // two systematic renumberings of it
                    let k = (s.v[0][0] + s.v[1][0]) % rn.len();
                    let t = s.relabel(&rn[k].1);
                    check_symbol(ctx, "renumbered", &t, Some(s), false);
                }
            });
        }
    }
}

fn replay(ctx: &mut Ctx, case: &Value) {
    if let Some(s) = rs_from_json(&case["sym"]) {
        let rep = if s.n <= 6 { Some(s.iso_key_all_perms()) } else { None };
        check_symbol(ctx, "replay", &s, rep.as_ref(), true);
    }
}
