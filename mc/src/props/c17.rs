//! C17 — 3D euclidicity verdicts are total, invariant and never contradictory.

use crate::engine::*;
use crate::g3;
use crate::props::c15::analyse_ptc;
use crate::props::common3d::*;
use crate::refmodel::dsym::*;
use crate::refmodel::three_d::*;
use crate::util::*;
use rust_dsymbols::covers::covers;
use rust_dsymbols::euclidicity::{is_euclidean, Euclidean};
use rust_dsymbols::fpgroups::cosets::coset_tables;
use rust_dsymbols::fundamental_group::fundamental_group;
use serde_json::{json, Value};
use std::collections::BTreeSet;

pub fn spec() -> Spec {
    Spec {
        id: "C17",
        run,
        replay,
        nshards: |_| 16,
        case_cap_s: |t| t.pick(900, 14400),
        rule: "one case per admissible 3-dimensional symbol (spherical tiles and vertex figures by the reference model, branching in {1,2,3,4,6}) on every class of D-sets of size <= M, plus the 20 corpus symbols. Per case: the verdict under EVERY schedule of the simplify choice point with at most 1 deviation (G3; symbols that never reach simplify have the single empty schedule); the verdict of every relabeling (all for size <= 3, systematic family above), of the dual and of every entry of covers(s, k) that the reference model accepts as an admissible covering. Oracle: a verdict is returned (no panic, no time-out); the verdict class is the same across schedules, relabelings and dual; never yes on a symbol and no on one of its covers or vice versa; every yes is re-derived: pseudo_toroidal_cover is a finite oriented branch-free covering (reference model), its H1 is Z^3 (textbook presentation + invariant factors) and it has 7 / 13 classes of subgroups of index 2 / 3; every corpus symbol gets yes, and so does every [quick: a spread of the] relabeling of every corpus symbol of 4-6 chambers and of its dual (default schedule). Call histories: large symbols (120-576 chambers: 3-spheres from Coxeter groups, 3-tori above the corpus) asked alternately and repeatedly within one process get the same class every time, the tori yes. Non-trivial = the symbol passes the invariant filter (reaches the cover construction) or is a corpus symbol.",
        assumptions: &["the completeness of the table of space-group invariants (src/data/euclideanInvariants.data) cannot be re-derived offline; what is checked is totality, invariance, cover-consistency, certificate soundness of every yes, and the corpus", "covers(s, k) supplies covers; each is verified to be a covering of the symbol by the reference model", "the 7/13 subgroup counts of a certificate use the crate's presentation and low-index enumeration (validated by C09/C12)"],
        bounds: |t| json!({"admissible_max_size": t.pick(3, 4), "choice_deviation_bound": 1, "cover_sheets": t.pick(2, 3), "prism_family_base_2d_max_size": t.pick(4, 5), "lattice_family": {"roots": "corpus symbols with <= 3 chambers", "sheets_per_level": if t.is_thorough() { json!([4, 3, 2, 2]) } else { json!([4, 2]) }, "max_chambers": t.pick(12, 24), "expanded_per_fingerprint": t.pick(1, 2)}, "cover_sheets_above_a_yes_symbol_of_at_most_6_chambers": t.pick(4, 6), "such_covers_have_at_most_chambers": t.pick(12, 18)}),
    }
}

#[derive(Clone, Debug, PartialEq, Eq, PartialOrd, Ord)]
enum Verdict {
    Yes,
    No(String),
    Maybe(String),
    Panic(String),
}

impl Verdict {
    fn class(&self) -> char {
        match self {
            Verdict::Yes => 'Y',
            Verdict::No(_) => 'N',
            Verdict::Maybe(_) => 'M',
            Verdict::Panic(_) => 'P',
        }
    }
}

fn verdict(s: &RS) -> Verdict {
    let cs = to_partial_dsym(s);
    match crate::engine::in_subject(|| std::panic::catch_unwind(std::panic::AssertUnwindSafe(|| is_euclidean(&cs)))) {
        Err(e) => Verdict::Panic(panic_message(&e)),
        Ok(Euclidean::Yes) => Verdict::Yes,
        Ok(Euclidean::No(m)) => Verdict::No(m),
        Ok(Euclidean::Maybe(m, _)) => Verdict::Maybe(m),
    }
}

fn certificate(ctx: &mut Ctx, s: &RS) -> Result<(), String> {
    match analyse_ptc(ctx, s)? {
        None => Err("the verdict is yes but pseudo_toroidal_cover finds no cover".into()),
        Some((_, cov)) => {
            // analyse_ptc has verified: finite, oriented, branch-free covering with H1 = Z^3
            let counts = std::panic::catch_unwind(std::panic::AssertUnwindSafe(|| {
                let fg = fundamental_group(&to_partial_dsym(&cov));
                let ng = fg.nr_generators();
                let mut by = vec![0usize; 4];
                for t in coset_tables(ng, &fg.relators, 3) {
                    by[t.len()] += 1;
                }
                by
            }));
            match counts {
                Ok(by) => {
                    if by[2] != 7 || by[3] != 13 {
                        return Err(format!("the certificate cover has {} / {} classes of subgroups of index 2 / 3, Z^3 has 7 / 13", by[2], by[3]));
                    }
                    Ok(())
                }
                Err(e) => Err(format!("subgroup count of the certificate cover panicked: {}", panic_message(&e))),
            }
        }
    }
}

fn check_symbol(ctx: &mut Ctx, family: &str, s: &RS, corpus: bool) {
    check_symbol_opts(ctx, family, s, corpus, false);
}

/// `light`: default schedule only, three renumberings + dual, no covers (large harness-built symbols at the quick tier)
fn check_symbol_opts(ctx: &mut Ctx, family: &str, s: &RS, corpus: bool, light: bool) {
    let case = json!({"family": family, "sym": rs_to_json(s)});
    ctx.announce(&case);
    let weight = s.n as u64;
    // every schedule with <= 1 deviation
    let mut verdicts: BTreeSet<Verdict> = BTreeSet::new();
    let mut bad_schedule: Option<(Vec<usize>, Verdict)> = None;
    let mut base: Option<Verdict> = None;
    let stats = g3::explore_with(if light { 0 } else { 1 }, ctx.tier.pick(5, 1), &|| verdict(s), &mut |run| {
        if run.schedule.is_empty() {
            base = Some(run.result.clone());
        }
        if let Some(b) = &base {
            if b.class() != run.result.class() && bad_schedule.is_none() {
                bad_schedule = Some((run.schedule.clone(), run.result.clone()));
            }
        }
        verdicts.insert(run.result.clone());
    });
    ctx.evaluations += stats.runs;
    ctx.states += stats.runs;
    ctx.transitions += stats.runs;
    ctx.traces += stats.runs;
    if let Some(sch) = &stats.result_diverged {
        ctx.violation("history-dependent", json!({"family": family, "sym": rs_to_json(s), "schedule": sch}), "is_euclidean gave two different verdicts for the same symbol under the same schedule of the choice point: the verdict depends on the call history".into(), weight);
        return;
    }
    if let Some(why) = &stats.unreplayable {
        ctx.add("inputs_not_replayable", 1);
        ctx.cap_hit(format!("G3 could not enumerate deviations for a {}-chamber symbol of family {}: {}; only the schedules visited before count", s.n, family, why));
    }
    ctx.add("schedules_run", stats.runs as i64);
    ctx.max("choice_points_max", stats.choice_points_max as i64);
    let base = match base {
        Some(b) => b,
        None => {
            // the empty schedule is always visited
            ctx.violation("machinery", case, "no base run".into(), weight);
            return;
        }
    };
    let reached_cover = !matches!(&base, Verdict::No(m) if m.contains("invariants do not match"));
    if reached_cover || corpus {
        ctx.nontrivial += 1;
    }
    ctx.add(&format!("verdict_{}", base.class()), 1);
    if ctx.want_sample() && base == Verdict::Yes {
        ctx.sample(json!({"case": case, "verdict": "yes", "schedules": stats.runs}));
    }
    if let Verdict::Panic(m) = &base {
        ctx.violation("panic:is_euclidean", case, m.clone(), weight);
        return;
    }
    if let Some((sch, v)) = bad_schedule {
        ctx.violation("schedule-dependent", json!({"family": family, "sym": rs_to_json(s), "schedule": sch}), format!("verdict {:?} under the default schedule, {:?} under this one", base, v), weight);
        return;
    }
    if corpus && base != Verdict::Yes {
        ctx.violation("corpus", case.clone(), format!("known-euclidean symbol gets {:?}", base), weight);
        return;
    }
    if base == Verdict::Yes {
        if let Err(e) = certificate(ctx, s) {
            ctx.violation("certificate", case.clone(), e, weight);
            return;
        }
        ctx.add("certificates_rederived", 1);
    }
    // relabelings and dual
    let mut variants: Vec<(String, RS)> = relabelings(s).into_iter().map(|t| ("relabeling".to_string(), t)).collect();
    if light && variants.len() > 3 {
        let step = variants.len() / 3;
        variants = variants.into_iter().step_by(step.max(1)).take(3).collect();
    }
    variants.push(("dual".into(), s.dual()));
    for (what, t) in variants {
        let vcase = json!({"family": family, "sym": rs_to_json(s), "variant": what, "variant_sym": rs_to_json(&t)});
        ctx.announce(&vcase);
        ctx.ops(1);
        let v = verdict(&t);
        if v.class() != base.class() {
            ctx.violation("not-invariant", vcase, format!("verdict {:?} for the symbol, {:?} for its {}", base, v, what), weight);
            return;
        }
    }
    if light {
        return;
    }
    // covers
    // a symbol reported euclidean is followed further up its covers (every space group type below it must be
    // recognised too): up to 4 [6] sheets as long as the cover has at most 12 [18] chambers
    let deep = base.class() == 'Y' && s.n <= 6;
    let k = if deep { ctx.tier.pick(4, 6) } else { ctx.tier.pick(2, 3) };
    let max_cover = if deep { ctx.tier.pick(12, 18).max(3 * s.n) } else { usize::MAX };
    let list = ctx.supply("covers", || covers(&to_partial_dsym(s), k).iter().map(|c| from_dsym(c)).collect::<Vec<_>>());
    for c in list.into_iter().flatten() {
        if c.n > max_cover {
            continue;
        }
        if c.n == s.n || valid_symbol(&c).is_err() || !c.commutes() || !admissible3d(&c) || c.covers(s).is_none() {
            continue;
        }
        let ccase = json!({"family": family, "sym": rs_to_json(s), "cover": rs_to_json(&c)});
        ctx.announce(&ccase);
        ctx.ops(1);
        ctx.add("covers_checked", 1);
        let v = verdict(&c);
        match (base.class(), v.class()) {
            ('Y', 'N') | ('N', 'Y') => {
                ctx.violation("cover-contradiction", ccase, format!("verdict {:?} for the symbol, {:?} for its {}-sheeted cover", base, v, c.n / s.n), weight);
                return;
            }
            (_, 'P') => {
                ctx.violation("panic:is_euclidean", ccase, format!("{:?}", v), weight);
                return;
            }
            _ => {}
        }
    }
}

fn run(ctx: &mut Ctx) {
    let tier = ctx.tier;
    for (_, s) in corpus() {
        if ctx.take() {
            check_symbol(ctx, "corpus", &s, true);
        }
    }
    for n in 1..=tier.pick(3, 4) {
        for s in admissible_symbols(n) {
            if ctx.take() {
                check_symbol(ctx, "admissible", &s, false);
            }
        }
    }
    if ctx.nviolations() > 0 {
        return;
    }
    // every [a spread of the] relabeling of every corpus symbol and of its dual, default schedule: each must get
    // yes.  A relabeling of the base symbol scrambles the numbering of the pseudo-toroidal cover (48-288 chambers)
    // that goes through simplify far more than the systematic renumberings do (cf. defect 21).
    for (_, s) in corpus() {
        if s.n < 4 {
            continue; // all relabelings of the smaller ones are part of check_symbol
        }
        let ps = perms(s.n);
        let step = if tier.is_thorough() { 1 } else { match s.n { 4 => 1, 5 => 7, _ => 37 } };
        for (tag, b) in [("relabeling", s.clone()), ("relabeling of the dual", s.dual())] {
            for p in ps.iter().step_by(step) {
                if !ctx.take() {
                    continue;
                }
                let t = b.relabel(p);
                let vcase = json!({"family": "corpus-relabelings", "sym": rs_to_json(&s), "variant": tag, "variant_sym": rs_to_json(&t)});
                ctx.announce(&vcase);
                ctx.ops(1);
                ctx.add("corpus_relabelings", 1);
                let v = verdict(&t);
                if v.class() != 'Y' {
                    ctx.violation("corpus", vcase, format!("a {} of a known-euclidean symbol gets {:?}", tag, v), s.n as u64);
                    return;
                }
            }
        }
    }
    lattice_family(ctx);
    if ctx.nviolations() > 0 {
        return;
    }
    call_sequence_family(ctx);
    if ctx.nviolations() > 0 {
        return;
    }
    recorded_family(ctx);
    if ctx.nviolations() > 0 {
        return;
    }
    // prisms over every euclidean 2-dimensional symbol of size <= 4 [5] (12 [15] chambers): all wallpaper groups
    // times the infinite dihedral group, in the harness's numbering and under renumberings
    for t in euclidean_2d_symbols(tier.pick(4, 5)) {
        if !ctx.take() {
            continue;
        }
        if let Some(p) = prism_over(&t) {
            if valid_symbol(&p).is_ok() && p.commutes() && admissible3d(&p) {
                ctx.add("prisms", 1);
                check_symbol_opts(ctx, "prism", &p, false, !tier.is_thorough() || p.n > 6);
            }
        }
    }
}

/// Recorded inputs (found by the second C17 baseline hunter; text forms under /verif/data): two one-tile cell
/// structures of the 3-torus with 116 and 136 chambers on which simplify used to accept a cut that does not
/// separate the glued face from its partner (verdict No, its dual Yes), and the connected sum of a 3-torus with the
/// Poincare homology sphere (264 chambers) and its dual, on which is_euclidean used to panic because the
/// simplified cover is disconnected.  Each is checked like any other symbol at the default schedule: a verdict
/// without a panic, the same class for three renumberings and the dual; the tori also under 12 affine renumberings
/// and for their covers with 2 sheets.
fn recorded_family(ctx: &mut Ctx) {
    let dir = std::path::Path::new(&verif_dir()).join("data");
    for (file, torus) in [("c17_torus_116.txt", true), ("c17_torus_136.txt", true), ("c17_torus_sum_poincare_264.txt", false), ("c17_torus_sum_poincare_dual_264.txt", false)] {
        if !ctx.take() {
            continue;
        }
        let text = match std::fs::read_to_string(dir.join(file)) {
            Ok(t) => t,
            Err(_) => {
                ctx.cap_hit(format!("{} is missing: the recorded input was NOT run", file));
                continue;
            }
        };
        let s = match text.trim().parse::<rust_dsymbols::dsyms::PartialDSym>().ok().and_then(|p| from_dsym(&p)) {
            Some(s) => s,
            None => {
                ctx.cap_hit(format!("{} does not parse: the recorded input was NOT run", file));
                continue;
            }
        };
        ctx.add("recorded_inputs", 1);
        check_symbol_opts(ctx, "recorded", &s, false, true);
        if ctx.nviolations() > 0 {
            return;
        }
        if torus {
            fn gcd(a: usize, b: usize) -> usize {
                if b == 0 { a } else { gcd(b, a % b) }
            }
            let base = verdict(&s);
            let n = s.n;
            let coprime: Vec<usize> = (2..n).filter(|&a| gcd(a, n) == 1).collect();
            let step = (coprime.len() / 12).max(1);
            let mut variants: Vec<(String, RS)> = coprime.iter().step_by(step).take(12).map(|&a| {
                let p: Vec<usize> = (0..n).map(|d| (a * d + 7 * a + 3) % n).collect();
                (format!("affine renumbering {}d+{}", a, (7 * a + 3) % n), s.relabel(&p))
            }).collect();
            if let Ok(list) = std::panic::catch_unwind(std::panic::AssertUnwindSafe(|| covers(&to_partial_dsym(&s), 2))) {
                for c in list.iter().filter_map(|x| from_dsym(x)) {
                    if c.n == 2 * n && c.is_connected() {
                        variants.push(("2-sheeted cover".into(), c));
                    }
                }
            }
            for (what, t) in variants {
                let vcase = json!({"family": "recorded", "sym": rs_to_json(&s), "variant": what, "variant_sym": rs_to_json(&t)});
                ctx.announce(&vcase);
                ctx.ops(1);
                let v = verdict(&t);
                let contradiction = matches!((base.class(), v.class()), ('Y', 'N') | ('N', 'Y'));
                if v.class() == 'P' || (what.starts_with("affine") && v.class() != base.class()) || contradiction {
                    ctx.violation(if what.starts_with("affine") { "not-invariant" } else { "cover-contradiction" }, vcase, format!("verdict {:?} for the symbol, {:?} for its {}", base, v, what), n as u64);
                    return;
                }
            }
        }
    }
}

/// Call histories: the verdict for a symbol must not depend on what was asked before in the same process.  Large
/// symbols (120 to 384 chambers: tilings of the 3-sphere from the Coxeter groups [3,3,3] and [4,3,3] built by the
/// reference Todd-Coxeter, pseudo-toroidal covers of corpus symbols and 2-sheeted covers of those, which are 3-tori)
/// are asked alternately, each several times and also renumbered, within ONE worker process.  Every finite cover
/// of a corpus symbol must get yes; every other symbol must get the class of its first answer every time.
fn call_sequence_family(ctx: &mut Ctx) {
    if !ctx.take() {
        return;
    }
    let tier = ctx.tier;
    let case = json!({"family": "call-sequence"});
    ctx.announce(&case);
    let spheres: Vec<(String, RS)> = crate::props::c16::coxeter_manifolds(Tier::Quick).into_iter().filter(|(_, s)| s.n >= 100).collect();
    let mut tori: Vec<(String, RS)> = vec![];
    for (text, s) in corpus() {
        if let Some(c) = std::panic::catch_unwind(std::panic::AssertUnwindSafe(|| rust_dsymbols::delaney3d::pseudo_toroidal_cover(&to_partial_dsym(&s)).and_then(|c| from_dsym(&c)))).ok().flatten() {
            if c.n >= 144 && (tier.is_thorough() || tori.iter().all(|(_, t): &(String, RS)| t.n != c.n)) {
                if c.n < 255 {
                    // a 2-sheeted cover of it: above the 255-chamber limit of the compact binary form
                    if let Ok(list) = std::panic::catch_unwind(std::panic::AssertUnwindSafe(|| covers(&to_partial_dsym(&c), 2))) {
                        if let Some(d) = list.iter().filter_map(|x| from_dsym(x)).find(|d| d.n == 2 * c.n && d.is_connected()) {
                            tori.push((format!("2-sheeted cover of the pseudo-toroidal cover of {}", text), d));
                        }
                    }
                }
                tori.push((format!("pseudo-toroidal cover of {}", text), c));
            }
        }
    }
    let mut spheres = spheres;
    spheres.sort_by_key(|(_, s)| std::cmp::Reverse(s.n));
    tori.sort_by_key(|(_, s)| std::cmp::Reverse(s.n));
    if spheres.is_empty() || tori.is_empty() {
        ctx.cap_hit("call-sequence family: no large symbols could be built; the family was NOT run".into());
        return;
    }
    // the sequence: sphere, torus, sphere renumbered, torus, ... then everything once more in reverse order
    let mut seq: Vec<(String, RS, bool)> = vec![];
    let k = spheres.len().max(tori.len());
    for i in 0..k {
        let (sn, sp) = &spheres[i % spheres.len()];
        let (tn, to) = &tori[i % tori.len()];
        let rev_s: Vec<usize> = (0..sp.n).rev().collect();
        let rev_t: Vec<usize> = (0..to.n).rev().collect();
        seq.push((sn.clone(), if i % 2 == 0 { sp.clone() } else { sp.relabel(&rev_s) }, false));
        seq.push((tn.clone(), if i % 2 == 1 { to.clone() } else { to.relabel(&rev_t) }, true));
    }
    let back: Vec<(String, RS, bool)> = seq.iter().rev().cloned().collect();
    seq.extend(back);
    let mut first: std::collections::BTreeMap<String, char> = Default::default();
    for (step, (name, s, is_torus)) in seq.iter().enumerate() {
        ctx.ops(1);
        ctx.add("call_sequence_verdicts", 1);
        ctx.max("call_sequence_largest", s.n as i64);
        let v = verdict(s);
        let scase = json!({"family": "call-sequence", "step": step, "symbol": name, "chambers": s.n});
        if let Verdict::Panic(m) = &v {
            ctx.violation("panic:is_euclidean", scase, m.clone(), s.n as u64);
            return;
        }
        if *is_torus && v.class() != 'Y' {
            ctx.violation("call-sequence", scase, format!("step {}: a finite cover of a known-euclidean symbol ({} chambers) gets {:?}", step, s.n, v), s.n as u64);
            return;
        }
        if !*is_torus && v.class() == 'Y' {
            // a yes must be backed by a certificate; a tiling of the 3-sphere has none
            if let Err(e) = certificate(ctx, s) {
                ctx.violation("call-sequence", scase, format!("step {}: {} ({} chambers) gets yes without a certificate: {}", step, name, s.n, e), s.n as u64);
                return;
            }
        }
        let f = *first.entry(name.clone()).or_insert(v.class());
        if f != v.class() {
            ctx.violation("call-sequence", scase, format!("step {}: {} ({} chambers) got class {} when first asked and {:?} now", step, name, s.n, f, v), s.n as u64);
            return;
        }
    }
    ctx.count(true);
}

/// Breadth-first search down the subgroup lattice of known-euclidean groups: states are symbols (up to
/// isomorphism), a transition passes to a cover with at most k sheets (k = 4 at the roots, then 3, then 2).
/// Every state is a finite cover of a corpus symbol, hence euclidean: the verdict No on any of them contradicts
/// the Yes of its root.  To reach many different space-group types instead of many symbols of the same type,
/// states are grouped by a fingerprint (first homology, orientability, number of 2-sheeted covers) and at
/// most `per_type` symbols per fingerprint are expanded.  Every worker runs the same deterministic expansion;
/// the verdicts are shared out.
fn lattice_family(ctx: &mut Ctx) {
    let tier = ctx.tier;
    let max_chambers = tier.pick(12, 24);
    let per_type = tier.pick(1, 2);
    let levels: Vec<usize> = if tier.is_thorough() { vec![4, 3, 2, 2] } else { vec![4, 2] };
    let roots: Vec<(String, RS)> = corpus().into_iter().filter(|(_, s)| s.n <= 3).collect();
    let mut seen: BTreeSet<RS> = BTreeSet::new();
    let mut per_fp: std::collections::BTreeMap<(Option<Vec<i128>>, bool, usize), usize> = Default::default();
    let mut frontier: Vec<(RS, String)> = vec![];
    for (t, s) in roots {
        if seen.insert(s.iso_key_bfs()) {
            frontier.push((s, t));
        }
    }
    for (depth, k) in levels.iter().enumerate() {
        let mut next: Vec<(RS, String)> = vec![];
        for (s, root) in &frontier {
            let list = ctx.supply("covers", || covers(&to_partial_dsym(s), *k).iter().map(|c| from_dsym(c)).collect::<Vec<_>>());
            for c in list.into_iter().flatten() {
                if c.n <= s.n || c.n > max_chambers || valid_symbol(&c).is_err() || !c.commutes() || !admissible3d(&c) || c.covers(s).is_none() {
                    continue;
                }
                if !seen.insert(c.iso_key_bfs()) {
                    continue;
                }
                ctx.add("lattice_states", if ctx.shard == 0 { 1 } else { 0 });
                // verdict of this state (shared out between the workers)
                if ctx.take() {
                    let ccase = json!({"family": "lattice", "root": root, "depth": depth + 1, "sym": rs_to_json(&c)});
                    ctx.announce(&ccase);
                    ctx.count(true);
                    ctx.ops(1);
                    let v = verdict(&c);
                    ctx.add(&format!("lattice_verdict_{}", v.class()), 1);
                    match v.class() {
                        'N' => {
                            ctx.violation("cover-contradiction", ccase, format!("verdict {:?} for a {}-chamber finite cover of the known-euclidean symbol {}", v, c.n, root), c.n as u64);
                            return;
                        }
                        'P' => {
                            ctx.violation("panic:is_euclidean", ccase, format!("{:?}", v), c.n as u64);
                            return;
                        }
                        _ => {}
                    }
                }
                // expand only a few symbols per fingerprint
                let two = ctx.supply("covers", || covers(&to_partial_dsym(&c), 2).len());
                let fp = (h1(&c), c.is_oriented(), two);
                let cnt = per_fp.entry(fp).or_insert(0);
                if *cnt < per_type {
                    *cnt += 1;
                    next.push((c, root.clone()));
                }
            }
        }
        ctx.max("lattice_depth", depth as i64 + 1);
        frontier = next;
        // smallest symbols first: cheaper verdicts reach more types
        frontier.sort_by_key(|(s, _)| s.n);
    }
    ctx.add("lattice_types", if ctx.shard == 0 { per_fp.len() as i64 } else { 0 });
}

fn replay(ctx: &mut Ctx, case: &Value) {
    if case["family"].as_str() == Some("call-sequence") {
        // the whole sequence is the case (the verdicts depend on what was asked before)
        call_sequence_family(ctx);
        return;
    }
    if case["family"].as_str() == Some("recorded") {
        if let Some(s) = rs_from_json(&case["sym"]) {
            check_symbol_opts(ctx, "recorded", &s, false, true);
            if let Some(t) = rs_from_json(&case["variant_sym"]) {
                let (b, v) = (verdict(&s), verdict(&t));
                if b.class() != v.class() {
                    ctx.violation("not-invariant", case.clone(), format!("verdict {:?} for the symbol, {:?} for its variant", b, v), s.n as u64);
                }
            }
        }
        return;
    }
    if case["family"].as_str() == Some("corpus-relabelings") {
        if let Some(t) = rs_from_json(&case["variant_sym"]) {
            ctx.count(true);
            ctx.ops(1);
            let v = verdict(&t);
            if v.class() != 'Y' {
                ctx.violation("corpus", case.clone(), format!("a relabeling of a known-euclidean symbol (or of its dual) gets {:?}", v), t.n as u64);
            }
        }
        return;
    }
    if let Some(s) = rs_from_json(&case["sym"]) {
        let corpus = case["family"].as_str() == Some("corpus");
        if let Some(sch) = case["schedule"].as_array() {
            let schedule: Vec<usize> = sch.iter().map(|x| x.as_u64().unwrap_or(0) as usize).collect();
            let base = verdict(&s);
            rust_dsymbols::verif_hooks::set_schedule(schedule);
            let v = verdict(&s);
            let _ = rust_dsymbols::verif_hooks::take_trace();
            rust_dsymbols::verif_hooks::set_schedule(vec![]);
            ctx.count(true);
            ctx.ops(2);
            if v.class() != base.class() {
                ctx.violation("schedule-dependent", case.clone(), format!("verdict {:?} under the default schedule, {:?} under this one", base, v), s.n as u64);
            }
        } else {
            check_symbol(ctx, if corpus { "corpus" } else { "admissible" }, &s, corpus);
        }
    }
}
