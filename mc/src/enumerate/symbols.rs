//! Enumerators for labeled D-sets and D-symbols (every labeling occurs, so "all
//! renumberings" is automatic at these sizes).

use crate::refmodel::dsym::*;

/// calls `f` for every (dim+1)-tuple of involutions on 0..n, in a fixed order;
/// with `commuting`, only tuples in which ops whose indices differ by > 1 commute
pub fn for_each_labeled_set(dim: usize, n: usize, commuting: bool, f: &mut dyn FnMut(&Vec<Vec<usize>>)) {
    let inv = involutions(n);
    fn rec(dim: usize, inv: &Vec<Vec<usize>>, commuting: bool, stack: &mut Vec<usize>, f: &mut dyn FnMut(&Vec<Vec<usize>>)) {
        if stack.len() == dim + 1 {
            let ops: Vec<Vec<usize>> = stack.iter().map(|&i| inv[i].clone()).collect();
            f(&ops);
            return;
        }
        let j = stack.len();
        for k in 0..inv.len() {
            if !commuting || (0..j).all(|i| j - i < 2 || perms_commute(&inv[stack[i]], &inv[k])) {
                stack.push(k);
                rec(dim, inv, commuting, stack, f);
                stack.pop();
            }
        }
    }
    rec(dim, &inv, commuting, &mut vec![], f);
}

/// the (i, i+1)-orbits of a set, as (index i, sorted members)
pub fn two_orbits(ops: &Vec<Vec<usize>>) -> Vec<(usize, Vec<usize>)> {
    let n = ops[0].len();
    let mut out = vec![];
    for i in 0..ops.len() - 1 {
        let mut seen = vec![false; n];
        for d in 0..n {
            if !seen[d] {
                let mut mem = vec![];
                let mut st = vec![d];
                seen[d] = true;
                while let Some(x) = st.pop() {
                    mem.push(x);
                    for j in [i, i + 1] {
                        let y = ops[j][x];
                        if !seen[y] {
                            seen[y] = true;
                            st.push(y);
                        }
                    }
                }
                mem.sort();
                out.push((i, mem));
            }
        }
    }
    out
}

/// calls `f` for every assignment of branching values from `vals` to the 2-orbits;
/// `max_branched` limits how many orbits may get a value other than vals[0]
pub fn for_each_branching(ops: &Vec<Vec<usize>>, vals: &[usize], max_branched: usize, f: &mut dyn FnMut(&RS)) {
    // every assignment of vals[..] to the 2-orbits in which at most `max_branched` orbits get a value other than
    // vals[0]; enumerated by recursion over the orbits with a budget, so that a small budget costs little however
    // many orbits and values there are
    let n = ops[0].len();
    let dim = ops.len() - 1;
    let orbs = two_orbits(ops);
    let total = orbs.len();
    let mut idx = vec![0usize; total];
    fn rec(k: usize, budget: usize, idx: &mut Vec<usize>, nvals: usize, emit: &mut dyn FnMut(&Vec<usize>)) {
        if k == 0 {
            emit(idx);
            return;
        }
        let p = k - 1;
        idx[p] = 0;
        rec(p, budget, idx, nvals, emit);
        if budget > 0 {
            for v in 1..nvals {
                idx[p] = v;
                rec(p, budget - 1, idx, nvals, emit);
            }
            idx[p] = 0;
        }
    }
    let mut emit = |idx: &Vec<usize>| {
        let mut v = vec![vec![0; n]; dim];
        for (k, (i, mem)) in orbs.iter().enumerate() {
            for &d in mem {
                v[*i][d] = vals[idx[k]];
            }
        }
        f(&RS { n, ops: ops.clone(), v });
    };
    rec(total, max_branched.min(total), &mut idx, vals.len(), &mut emit);
}

/// Structured branching assignments on one D-set (operations given 0-based): "uniform" = m(i, i+1) equal to the lcm
/// of the orbit lengths on every chamber (as in a regular tiling: degrees never distinguish chambers, so symmetry
/// and folding are maximal), the same with every single orbit at twice its value, and four "spread" assignments in
/// which every orbit is branched (all values distinct ascending / descending, period 2, period 3).
pub fn structured_assignments(ops: &Vec<Vec<usize>>) -> Vec<RS> {
    fn gcd(a: usize, b: usize) -> usize {
        if b == 0 { a } else { gcd(b, a % b) }
    }
    let n = ops[0].len();
    let dim = ops.len() - 1;
    let orbs = two_orbits(ops);
    let rlen = |i: usize, d: usize| -> usize {
        let mut e = d;
        let mut r = 0;
        loop {
            e = ops[i + 1][ops[i][e]];
            r += 1;
            if e == d {
                return r;
            }
        }
    };
    let mut out = vec![];
    let mut push = |vals: &dyn Fn(usize, usize) -> usize| {
        let mut v = vec![vec![0; n]; dim];
        for (k, (i, mem)) in orbs.iter().enumerate() {
            for &d in mem {
                v[*i][d] = vals(k, *i);
            }
        }
        out.push(RS { n, ops: ops.clone(), v });
    };
    let mut l = vec![1usize; dim];
    for (i, mem) in &orbs {
        let r = rlen(*i, mem[0]);
        l[*i] = l[*i] / gcd(l[*i], r) * r;
    }
    let base: Vec<usize> = orbs.iter().map(|(i, mem)| l[*i] / rlen(*i, mem[0])).collect();
    push(&|k, _| base[k]);
    for a in 0..orbs.len() {
        push(&|k, _| if k == a { 2 * base[k] } else { base[k] });
    }
    let total = orbs.len();
    push(&|k, _| k + 2);
    push(&|k, _| total - k + 1);
    push(&|k, _| 1 + k % 2);
    push(&|k, i| 1 + (k + i) % 3);
    out
}

pub fn ops_connected(ops: &Vec<Vec<usize>>) -> bool {
    let n = ops[0].len();
    let mut seen = vec![false; n];
    seen[0] = true;
    let mut st = vec![0];
    while let Some(d) = st.pop() {
        for o in ops {
            if !seen[o[d]] {
                seen[o[d]] = true;
                st.push(o[d]);
            }
        }
    }
    seen.iter().all(|&x| x)
}

/// every labeled connected commuting symbol of the given dimension and size with
/// branching values from `vals`
pub fn for_each_connected_symbol(dim: usize, n: usize, vals: &[usize], max_branched: usize, f: &mut dyn FnMut(&RS)) {
    for_each_labeled_set(dim, n, true, &mut |ops| {
        if ops_connected(ops) {
            for_each_branching(ops, vals, max_branched, f);
        }
    });
}

/// systematic renumberings of a large symbol: rotations by c, reversal, swap of the first
/// two and of first/last, the two perfect shuffles
pub fn systematic_renumberings(n: usize) -> Vec<(String, Vec<usize>)> {
    let mut out: Vec<(String, Vec<usize>)> = vec![];
    out.push(("identity".into(), (0..n).collect()));
    if n >= 2 {
        for c in [1, n / 2, n - 1] {
            if c > 0 && c < n {
                out.push((format!("rotate{}", c), (0..n).map(|d| (d + c) % n).collect()));
            }
        }
        out.push(("reverse".into(), (0..n).map(|d| n - 1 - d).collect()));
        let mut p: Vec<usize> = (0..n).collect();
        p.swap(0, n - 1);
        out.push(("swap-first-last".into(), p));
        let mut p: Vec<usize> = (0..n).collect();
        p.swap(0, 1);
        out.push(("swap-1-2".into(), p));
        // out-shuffle and in-shuffle
        let h = (n + 1) / 2;
        out.push(("shuffle-out".into(), (0..n).map(|d| if d < h { 2 * d } else { 2 * (d - h) + 1 }).collect()));
        let h2 = n / 2;
        out.push(("shuffle-in".into(), (0..n).map(|d| if d < h2 { 2 * d + 1 } else { 2 * (d - h2) }).collect()));
    }
    let mut seen = std::collections::BTreeSet::new();
    out.retain(|(_, p)| {
        let mut q = p.clone();
        q.sort();
        q == (0..n).collect::<Vec<_>>() && seen.insert(p.clone())
    });
    out
}

/// Large valid symbols built without the crate: chambers are the cosets of a subgroup H of
/// a finite Coxeter group <s_0..s_dim | s_i^2, (s_i s_j)^m_ij> (m_ij = 2 for |i-j| > 1)
/// computed by the reference Todd-Coxeter; s_i acts by right multiplication; the
/// branching numbers are m_ij / r where that is an integer (otherwise the quotient is
/// not a symbol and is dropped).  H trivial gives the universal cover.
pub fn coxeter_symbols(max_size: usize) -> Vec<(String, RS)> {
    use crate::refmodel::groups::{Tc, Word};
    let mut out = vec![];
    let diagrams: Vec<(&str, Vec<usize>)> = vec![
        ("[3,3]", vec![3, 3]),
        ("[4,3]", vec![4, 3]),
        ("[5,3]", vec![5, 3]),
        ("[2,12]", vec![2, 12]),
        ("[7,2]", vec![7, 2]),
        ("[3,3,3]", vec![3, 3, 3]),
        ("[4,3,3]", vec![4, 3, 3]),
        ("[3,4,3]", vec![3, 4, 3]),
        ("[2,2,5]", vec![2, 2, 5]),
        ("[6]", vec![6]),
        ("[40]", vec![40]),
    ];
    for (name, ms) in diagrams {
        let dim = ms.len();
        let ng = dim + 1;
        let mut rels: Vec<Word> = vec![];
        for i in 0..ng {
            rels.push(vec![i as isize + 1, i as isize + 1]);
        }
        for i in 0..ng {
            for j in (i + 1)..ng {
                let m = if j == i + 1 { ms[i] } else { 2 };
                let mut w = vec![];
                for _ in 0..m {
                    w.push(i as isize + 1);
                    w.push(j as isize + 1);
                }
                rels.push(w);
            }
        }
        let mut subs: Vec<(String, Vec<Word>)> = vec![("1".into(), vec![])];
        subs.push(("<s0>".into(), vec![vec![1]]));
        subs.push(("<s0 s1>".into(), vec![vec![1, 2]]));
        if ng >= 3 {
            subs.push(("<s1 s2>".into(), vec![vec![2, 3]]));
            subs.push(("<s0 s2>".into(), vec![vec![1, 3]]));
            subs.push(("<s0 s1 s2>".into(), vec![vec![1, 2, 3]]));
        }
        for (hname, h) in subs {
            if let Some(a) = Tc::run(ng, &rels, &h, 40 * max_size + 1000) {
                let n = a.len();
                if n > max_size {
                    continue;
                }
                let ops: Vec<Vec<usize>> = (0..ng).map(|i| (0..n).map(|r| a.get(r, i as isize + 1)).collect()).collect();
                let mut s = RS::from_ops(ops);
                let mut ok = s.is_involutive() && s.commutes();
                for i in 0..dim {
                    for d in 0..n {
                        let r = s.r(i, i + 1, d);
                        if ms[i] % r == 0 {
                            s.v[i][d] = ms[i] / r;
                        } else {
                            ok = false;
                        }
                    }
                }
                if ok && s.is_connected() {
                    out.push((format!("{} / {}", name, hname), s));
                }
            }
        }
    }
    out
}
