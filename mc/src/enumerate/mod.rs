pub mod symbols;
