pub mod engine;
pub mod enumerate;
pub mod props;
pub mod refmodel;
pub mod util;
