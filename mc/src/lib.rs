pub mod engine;
pub mod g3;
pub mod enumerate;
pub mod props;
pub mod refmodel;
pub mod util;
