//! Audit H2C17: "3D euclidicity verdicts are total, invariant and never
//! contradictory" (src/euclidicity.rs and what it calls).
//!
//! Public API only. The tests named finding* FAIL on the unmodified code
//! because of the violation they document; the tests named sweep* pass.
//!
//! cd /tmp/wt/H2C17 && cp /tmp/wt/H2C17.out/repro_h2c17.rs tests/ &&
//! CARGO_TARGET_DIR=/tmp/wt/H2C17/target cargo test --offline --release --test repro_h2c17 -- --nocapture
#![allow(dead_code)]
use std::panic::{catch_unwind, AssertUnwindSafe};

use rust_dsymbols::covers::{covers, finite_universal_cover, subgroup_cover};
use rust_dsymbols::delaney2d;
use rust_dsymbols::delaney2d::orbifold_symbol;
use rust_dsymbols::delaney3d::pseudo_toroidal_cover;
use rust_dsymbols::derived::{build_set, build_sym_using_vs, dual, subsymbol};
use rust_dsymbols::dsets::DSet;
use rust_dsymbols::dsyms::{DSym, PartialDSym};
use rust_dsymbols::euclidicity::{is_euclidean, Euclidean};
use rust_dsymbols::fpgroups::cosets::{coset_table, coset_tables};
use rust_dsymbols::fpgroups::free_words::FreeWord;
use rust_dsymbols::fpgroups::invariants::abelian_invariants;
use rust_dsymbols::fpgroups::stabilizer::stabilizer;
use rust_dsymbols::fundamental_group::fundamental_group;
use rust_dsymbols::generators::dset_generators::DSets;
use rust_dsymbols::generators::dsym_generators::{DSyms, Geometries};
use rust_dsymbols::simplify::simplify;

pub const CORPUS: &[&str] = &[
    "<1.1:1 3:1,1,1,1:4,3,4>",
    "<1.1:2 3:2,1 2,1 2,2:6,3 2,6>",
    "<2.1:2 3:1 2,1 2,1 2,2:3 3,3 4,4>",
    "<513.5:2 3:2,1 2,1 2,2:4,2 4,6>",
    "<513.8:2 3:2,1 2,1 2,2:6,2 3,6>",
    "<3.3:3 3:1 2 3,1 2 3,1 3,2 3:3 3 4,4 4,3>",
    "<167.3:3 3:1 2 3,1 3,2 3,1 2 3:3 4,3,4 6>",
    "<184.4:3 3:1 2 3,1 3,2 3,1 3:4 6,3,3>",
    "<23.14:4 3:1 2 3 4,1 2 4,1 3 4,2 3 4:3 3 8,4 3,3 4>",
    "<71.3:4 3:1 2 3 4,1 2 4,1 3 4,2 4:3 3 6,3 3,4>",
    "<514.7:4 3:2 4,1 2 3 4,1 2 3 4,3 4:4 4,2 4 4 3,4 4>",
    "<553.3:4 3:2 4,1 2 3 4,3 4,2 4:4 6,2 6,4>",
    "<45.2:5 3:1 2 3 5,1 2 4 5,1 3 4 5,2 3 4 5:3 3 3,3 3 3,6 4 4>",
    "<45.7:5 3:1 2 3 5,1 2 4 5,1 3 4 5,2 3 4 5:3 3 3,4 3 3,6 3 3>",
    "<45.12:5 3:1 2 3 5,1 2 4 5,1 3 4 5,2 3 4 5:3 3 6,4 3 3,3 4 4>",
    "<54.2:5 3:1 2 3 5,1 2 4 5,1 3 5,2 3 4 5:3 3 3,3 4,3 6>",
    "<54.4:5 3:1 2 3 5,1 2 4 5,1 3 5,2 3 4 5:3 3 3,4 4,3 4>",
    "<222.77:5 3:1 2 4 5,1 3 5,2 3 4 5,1 5 4:4 12,3 2,3 4>",
];

pub fn sym(s: &str) -> PartialDSym {
    s.parse::<PartialDSym>().unwrap()
}

/// Verdict class: 'Y', 'N', 'M', or 'P' for a panic, with the message.
pub fn verdict<T: DSym>(ds: &T) -> (char, String) {
    let r = catch_unwind(AssertUnwindSafe(|| is_euclidean(ds)));
    match r {
        Ok(Euclidean::Yes) => ('Y', String::new()),
        Ok(Euclidean::No(s)) => ('N', s),
        Ok(Euclidean::Maybe(s, _)) => ('M', s),
        Err(e) => {
            let msg = if let Some(s) = e.downcast_ref::<String>() {
                s.clone()
            } else if let Some(s) = e.downcast_ref::<&str>() {
                s.to_string()
            } else {
                "?".to_string()
            };
            ('P', msg)
        }
    }
}

/// perm[d] (1-based, perm[0] unused) is the new name of chamber d.
pub fn renumber<T: DSym>(ds: &T, perm: &[usize]) -> PartialDSym {
    let n = ds.size();
    let mut inv = vec![0; n + 1];
    for d in 1..=n {
        inv[perm[d]] = d;
    }
    build_sym_using_vs(
        build_set(n, ds.dim(), |i, d| ds.op(i, inv[d]).map(|e| perm[e])),
        |i, d| ds.v(i, i + 1, inv[d]),
    )
}

pub fn all_perms(n: usize) -> Vec<Vec<usize>> {
    fn rec(cur: &mut Vec<usize>, used: &mut Vec<bool>, n: usize, out: &mut Vec<Vec<usize>>) {
        if cur.len() == n + 1 {
            out.push(cur.clone());
            return;
        }
        for k in 1..=n {
            if !used[k] {
                used[k] = true;
                cur.push(k);
                rec(cur, used, n, out);
                cur.pop();
                used[k] = false;
            }
        }
    }
    let mut out = vec![];
    rec(&mut vec![0], &mut vec![false; n + 1], n, &mut out);
    out
}

pub struct Rng(pub u64);
impl Rng {
    pub fn next(&mut self) -> u64 {
        self.0 ^= self.0 << 13;
        self.0 ^= self.0 >> 7;
        self.0 ^= self.0 << 17;
        self.0
    }
    pub fn perm(&mut self, n: usize) -> Vec<usize> {
        let mut p: Vec<usize> = (0..=n).collect();
        for i in (2..=n).rev() {
            let j = 1 + (self.next() as usize) % i;
            p.swap(i, j);
        }
        p
    }
}

pub fn dual_of<T: DSym>(ds: &T) -> PartialDSym {
    dual(ds)
}

/// in the property's domain?
pub fn in_domain<T: DSym>(ds: &T) -> bool {
    if ds.dim() != 3 || !ds.is_complete() || !ds.is_connected() {
        return false;
    }
    for (i, j) in [(0, 2), (0, 3), (1, 3)] {
        for d in 1..=ds.size() {
            if ds.walk(d, [i, j, i, j]) != Some(d) {
                return false;
            }
        }
    }
    for i in 0..3 {
        for d in 1..=ds.size() {
            let v = ds.v(i, i + 1, d).unwrap();
            if v > 6 || v == 5 || v == 0 {
                return false;
            }
        }
    }
    for idcs in [[0, 1, 2], [1, 2, 3]] {
        for d in ds.orbit_reps(idcs, 1..=ds.size()) {
            if !delaney2d::is_spherical(&subsymbol(ds, idcs, d)) {
                return false;
            }
        }
    }
    true
}

/// Prism over a 2D symbol: tiles are (polygon x interval), with mirrors in
/// the top/bottom planes and in the mid plane. Three chambers A,B,C per 2D
/// chamber: A(d)=d, B(d)=n+d, C(d)=2n+d.
pub fn prism<T: DSym>(ds2: &T) -> PartialDSym {
    assert_eq!(ds2.dim(), 2);
    let n = ds2.size();
    let op = |i: usize, x: usize| -> Option<usize> {
        let layer = (x - 1) / n; // 0=A 1=B 2=C
        let d = (x - 1) % n + 1;
        let s = |j: usize| ds2.op(j, d).unwrap();
        Some(match (layer, i) {
            (0, 0) => s(0),
            (0, 1) => s(1),
            (0, 2) => n + d,
            (0, 3) => d,
            (1, 0) => n + s(0),
            (1, 1) => 2 * n + d,
            (1, 2) => d,
            (1, 3) => n + s(2),
            (2, 0) => 2 * n + d,
            (2, 1) => n + d,
            (2, 2) => 2 * n + s(1),
            (2, 3) => 2 * n + s(2),
            _ => unreachable!(),
        })
    };
    let m = |i: usize, x: usize| -> Option<usize> {
        let layer = (x - 1) / n;
        let d = (x - 1) % n + 1;
        Some(match (i, layer) {
            (0, 0) => ds2.m(0, 1, d).unwrap(),
            (0, _) => 4,
            (1, _) => 3,
            (2, 2) => ds2.m(1, 2, d).unwrap(),
            (2, _) => 4,
            _ => unreachable!(),
        })
    };
    rust_dsymbols::derived::build_sym_using_ms(build_set(3 * n, 3, op), m)
}


/// Stellar subdivision of the tiles (the [0,1,2]-orbits) containing the given
/// chambers: every face of such a tile becomes the base of a pyramid with apex
/// in the centre of the tile. The orbifold (hence euclidicity) is unchanged.
/// Layers: 0 = old chamber d (now in the pyramid over its face),
/// 1 = (v, e, side triangle over e), 2 = (v, edge v-apex, triangle),
/// 3 = (apex, edge v-apex, triangle).
pub fn cone_tiles<T: DSym>(ds: &T, seeds: &[usize]) -> PartialDSym {
    let n = ds.size();
    let mut chosen = vec![false; n + 1];
    for &s in seeds {
        for e in ds.orbit([0, 1, 2], s) {
            chosen[e] = true;
        }
    }
    let mut idx = vec![0usize; n + 1];
    let mut src = vec![(0usize, 0usize); 1];
    for d in 1..=n {
        src.push((d, 0));
    }
    let mut k = 0;
    for d in 1..=n {
        if chosen[d] {
            idx[d] = k;
            k += 1;
            for l in 1..=3 {
                src.push((d, l));
            }
        }
    }
    let total = n + 3 * k;
    let name = |d: usize, l: usize| if l == 0 { d } else { n + 3 * idx[d] + l };
    let op = |i: usize, x: usize| -> Option<usize> {
        let (d, l) = src[x];
        let s = |j: usize| ds.op(j, d).unwrap();
        Some(match (l, i) {
            (0, 2) => if chosen[d] { name(d, 1) } else { s(2) },
            (0, _) => s(i),
            (1, 0) => name(s(0), 1),
            (1, 1) => name(d, 2),
            (1, 2) => d,
            (1, 3) => name(s(2), 1),
            (2, 0) => name(d, 3),
            (2, 1) => name(d, 1),
            (2, 2) => name(s(1), 2),
            (2, 3) => name(s(2), 2),
            (3, 0) => name(d, 2),
            (3, 1) => name(s(0), 3),
            (3, 2) => name(s(1), 3),
            (3, 3) => name(s(2), 3),
            _ => unreachable!(),
        })
    };
    let v = |i: usize, x: usize| -> Option<usize> {
        let (d, l) = src[x];
        Some(match (l, i) {
            (0, 0) => ds.v(0, 1, d).unwrap(),
            (0, 1) => if chosen[d] { 1 } else { ds.v(1, 2, d).unwrap() },
            (0, 2) => ds.v(2, 3, d).unwrap(),
            (1, 0) => 1,
            (1, 1) => 1,
            (1, 2) => ds.v(2, 3, d).unwrap(),
            (2, 0) => 1,
            (2, 1) => 1,
            (2, 2) => ds.v(1, 2, d).unwrap(),
            (3, 0) => 1,
            (3, 1) => ds.v(0, 1, d).unwrap(),
            (3, 2) => ds.v(1, 2, d).unwrap(),
            _ => unreachable!(),
        })
    };
    build_sym_using_vs(build_set(total, 3, op), v)
}

/// Is the [0,1,2]-orbit of d a tetrahedron whose four faces all lead to
/// other tiles?
pub fn is_free_tetrahedron<T: DSym>(ds: &T, d: usize) -> bool {
    let orb = ds.orbit([0, 1, 2], d);
    orb.len() == 24
        && orb.iter().all(|&e| {
            ds.m(0, 1, e) == Some(3)
                && ds.m(1, 2, e) == Some(3)
                && ds.v(0, 1, e) == Some(1)
                && ds.v(1, 2, e) == Some(1)
                && ds.v(2, 3, e) == Some(1)
                && !orb.contains(&ds.op(3, e).unwrap())
        })
}

/// Connected sum of two manifold symbols (all v = 1) along tetrahedral tiles:
/// the tiles containing da (in a) and db (in b) are removed and the two
/// boundary spheres are identified by the isomorphism sending da to db.
pub fn connected_sum<A: DSym, B: DSym>(a: &A, da: usize, b: &B, db: usize) -> PartialDSym {
    assert!(is_free_tetrahedron(a, da) && is_free_tetrahedron(b, db));
    let (na, nb) = (a.size(), b.size());
    // isomorphism psi between the two tiles
    let mut psi = vec![0usize; na + 1];
    let mut queue = vec![(da, db)];
    psi[da] = db;
    while let Some((x, y)) = queue.pop() {
        for i in 0..3 {
            let (xi, yi) = (a.op(i, x).unwrap(), b.op(i, y).unwrap());
            if psi[xi] == 0 {
                psi[xi] = yi;
                queue.push((xi, yi));
            } else {
                assert_eq!(psi[xi], yi);
            }
        }
    }
    let mut psi_inv = vec![0usize; nb + 1];
    for x in 1..=na {
        if psi[x] != 0 {
            psi_inv[psi[x]] = x;
        }
    }
    // new numbering
    let mut name_a = vec![0usize; na + 1];
    let mut name_b = vec![0usize; nb + 1];
    let mut src: Vec<(usize, usize)> = vec![(0, 0)];
    for x in 1..=na {
        if psi[x] == 0 {
            name_a[x] = src.len();
            src.push((0, x));
        }
    }
    for y in 1..=nb {
        if psi_inv[y] == 0 {
            name_b[y] = src.len();
            src.push((1, y));
        }
    }
    let total = src.len() - 1;
    let op = |i: usize, z: usize| -> Option<usize> {
        let (side, x) = src[z];
        if side == 0 {
            let xi = a.op(i, x).unwrap();
            if psi[xi] == 0 {
                Some(name_a[xi])
            } else {
                assert_eq!(i, 3);
                Some(name_b[b.op(3, psi[xi]).unwrap()])
            }
        } else {
            let xi = b.op(i, x).unwrap();
            if psi_inv[xi] == 0 {
                Some(name_b[xi])
            } else {
                assert_eq!(i, 3);
                Some(name_a[a.op(3, psi_inv[xi]).unwrap()])
            }
        }
    };
    let v = |i: usize, z: usize| -> Option<usize> {
        let (side, x) = src[z];
        if side == 0 { a.v(i, i + 1, x) } else { b.v(i, i + 1, x) }
    };
    build_sym_using_vs(build_set(total, 3, op), v)
}

/// Inserts a new vertex in the middle of every edge in the [0,2,3]-orbits of
/// the given chambers. Chamber d keeps its name (now on the half-edge at its
/// vertex), its companion at the new midpoint vertex gets a new name.
pub fn subdivide_edges<T: DSym>(ds: &T, seeds: &[usize]) -> PartialDSym {
    let n = ds.size();
    let mut star = vec![0usize; n + 1];
    let mut src: Vec<(usize, usize)> = vec![(0, 0)];
    for d in 1..=n {
        src.push((d, 0));
    }
    for &s in seeds {
        for e in ds.orbit([0, 2, 3], s) {
            if star[e] == 0 {
                star[e] = src.len();
                src.push((e, 1));
            }
        }
    }
    let total = src.len() - 1;
    let op = |i: usize, x: usize| -> Option<usize> {
        let (d, l) = src[x];
        let s = |j: usize| ds.op(j, d).unwrap();
        Some(if l == 0 {
            if i == 0 && star[d] != 0 { star[d] } else { s(i) }
        } else {
            match i {
                0 => d,
                1 => star[s(0)],
                _ => star[s(i)],
            }
        })
    };
    let set = build_set(total, 3, op);
    let set2 = set.clone();
    let v = |i: usize, x: usize| -> Option<usize> {
        let (d, l) = src[x];
        if l == 1 && i == 1 {
            Some(2 / set2.r(1, 2, x).unwrap())
        } else {
            ds.v(i, i + 1, d)
        }
    };
    build_sym_using_vs(set, v)
}

/// Merges all tiles of a manifold symbol (all v = 1) into one along a random
/// spanning tree of the tile adjacency graph (removing the faces of the tree).
pub fn random_merge_tiles<T: DSym>(ds: &T, rng: &mut Rng) -> PartialDSym {
    let n = ds.size();
    let mut tile = vec![0usize; n + 1];
    for (k, d) in ds.orbit_reps([0, 1, 2], 1..=n).into_iter().enumerate() {
        for e in ds.orbit([0, 1, 2], d) {
            tile[e] = k;
        }
    }
    let ntiles = *tile.iter().max().unwrap() + 1;
    let mut parent: Vec<usize> = (0..ntiles).collect();
    fn find(p: &mut Vec<usize>, x: usize) -> usize {
        let mut x = x;
        while p[x] != x { p[x] = p[p[x]]; x = p[x]; }
        x
    }
    let mut faces = ds.orbit_reps([0, 1, 3], 1..=n);
    // shuffle
    for i in (1..faces.len()).rev() {
        let j = (rng.next() as usize) % (i + 1);
        faces.swap(i, j);
    }
    let mut removed = vec![false; n + 1];
    for f in faces {
        let a = find(&mut parent, tile[f]);
        let b = find(&mut parent, tile[ds.op(3, f).unwrap()]);
        if a != b {
            parent[a] = b;
            for e in ds.orbit([0, 1, 3], f) {
                removed[e] = true;
            }
        }
    }
    let mut name = vec![0usize; n + 1];
    let mut src = vec![0usize];
    for d in 1..=n {
        if !removed[d] {
            name[d] = src.len();
            src.push(d);
        }
    }
    let total = src.len() - 1;
    let op = |i: usize, x: usize| -> Option<usize> {
        let d = src[x];
        let mut e = ds.op(i, d).unwrap();
        if i == 2 {
            while removed[e] {
                e = ds.op(2, ds.op(3, e).unwrap()).unwrap();
            }
        }
        Some(name[e])
    };
    build_sym_using_vs(build_set(total, 3, op), |_, _| Some(1))
}

// ---------------------------------------------------------------------------
// helpers specific to the findings
// ---------------------------------------------------------------------------

/// The Poincare homology sphere as a D-symbol: the quotient of the 600-cell
/// {3,3,5} (14400 chambers) by the binary icosahedral group acting by left
/// multiplication: 120 chambers, 5 tetrahedra, 1 vertex, all v = 1.
/// c = s0 s1 s2 s3 is a Coxeter element (order 30); c^3 is an isoclinic
/// rotation of order 10, hence a left translation; it and one conjugate
/// generate the binary icosahedral group. Verified below by |pi_1| = 120,
/// H_1 = 0 and v = 1 everywhere.
fn poincare_sphere() -> PartialDSym {
    let ds = sym("<1.1:1 3:1,1,1,1:3,3,5>");
    let c3 = FreeWord::from([1, 2, 3, 4]).raised_to(3);
    let x = FreeWord::from([1, 2]);
    let conj = &(&x.inverse() * &c3) * &x;
    subgroup_cover(&ds, &vec![c3, conj])
}

fn good_tet<T: DSym>(t: &T, d: usize) -> bool {
    if !is_free_tetrahedron(t, d) {
        return false;
    }
    let mut vs = std::collections::BTreeSet::new();
    for e in t.orbit([0, 1, 2], d) {
        vs.insert(t.orbit([1, 2, 3], e)[0]);
    }
    vs.len() == 4
}

/// Independent (definition-level) check that a symbol is a closed orientable
/// 3-manifold cell complex: loopless, bipartite, all v = 1, ops i,j commute
/// for |i-j| > 1, every tile and every vertex figure is a 2-sphere (Euler
/// characteristic 2 by counting orbits), Euler characteristic 0.
fn is_closed_oriented_manifold_symbol<T: DSym>(ds: &T) -> bool {
    let n = ds.size();
    if ds.dim() != 3 || !ds.is_complete() || !ds.is_connected() {
        return false;
    }
    // bipartite + loopless
    let mut col = vec![0i8; n + 1];
    col[1] = 1;
    let mut stack = vec![1usize];
    while let Some(d) = stack.pop() {
        for i in 0..=3 {
            let e = ds.op(i, d).unwrap();
            if e == d { return false; }
            if col[e] == 0 { col[e] = -col[d]; stack.push(e); }
            else if col[e] == col[d] { return false; }
        }
    }
    for d in 1..=n {
        for i in 0..3 {
            if ds.v(i, i + 1, d) != Some(1) { return false; }
        }
        for (i, j) in [(0, 2), (0, 3), (1, 3)] {
            if ds.walk(d, [i, j, i, j]) != Some(d) { return false; }
        }
    }
    let count = |idcs: Vec<usize>| -> usize {
        let mut seen = vec![false; n + 1];
        let mut c = 0;
        for d in 1..=n {
            if !seen[d] {
                c += 1;
                let mut st = vec![d];
                seen[d] = true;
                while let Some(x) = st.pop() {
                    for &i in &idcs {
                        let y = ds.op(i, x).unwrap();
                        if !seen[y] { seen[y] = true; st.push(y); }
                    }
                }
            }
        }
        c
    };
    // spheres: for every {a,b,c}-orbit, chi = #ab + #bc + #ac orbits - size/2
    for idcs in [[0usize, 1, 2], [1, 2, 3]] {
        let mut seen = vec![false; n + 1];
        for d in 1..=n {
            if seen[d] { continue; }
            let orb = ds.orbit(idcs, d);
            for &e in &orb { seen[e] = true; }
            let sub = |i: usize, j: usize| -> usize {
                let mut s2 = std::collections::BTreeSet::new();
                for &e in &orb { s2.insert(ds.orbit([i, j], e)[0]); }
                s2.len()
            };
            let (a, b, c) = (idcs[0], idcs[1], idcs[2]);
            // faces(ab) + vertices(bc) - edges(ac)
            let chi = sub(a, b) as isize + sub(b, c) as isize - sub(a, c) as isize;
            if chi != 2 { return false; }
        }
    }
    let chi3 = count(vec![1, 2, 3]) as isize - count(vec![0, 2, 3]) as isize
        + count(vec![0, 1, 3]) as isize - count(vec![0, 1, 2]) as isize;
    chi3 == 0
}

/// T^3 # P with 264 chambers: T^3 is the pseudo-toroidal cover (192 chambers)
/// of the corpus symbol <71.3:...>, whose tile containing chamber 1 is a
/// tetrahedron with four distinct vertices.
fn torus_sum_poincare() -> PartialDSym {
    let p = poincare_sphere();
    let t = pseudo_toroidal_cover(&sym(CORPUS[9])).unwrap();
    assert!(good_tet(&t, 1));
    connected_sum(&t, 1, &p, 1)
}

// ---------------------------------------------------------------------------
// FINDINGS (these tests FAIL on the unmodified code)
// ---------------------------------------------------------------------------

/// A cell decomposition of the 3-torus with one tile, one vertex, 9 faces and
/// 9 edges (116 chambers, all v = 1). It is a state that simplify() itself
/// reaches, by topology-preserving steps, from a 4-sheeted cover of the
/// toroidal cover of the corpus symbol <54.4:5 3:...> after merging its tiles
/// and vertices along random spanning trees.
const X116: &str =
    "<1.1:116 3:2 4 6 8 10 15 16 14 18 20 22 24 26 28 30 32 35 36 38 42 41 44 46 48 50 52 54 56 58 60 \
     62 64 66 68 70 72 74 76 78 80 82 84 86 88 90 92 94 96 98 100 102 104 106 108 110 112 114 116,33 \
     4 35 36 8 34 77 115 60 13 18 25 17 55 64 110 68 80 114 59 111 65 54 61 57 37 58 40 44 43 97 48 \
     98 99 52 100 62 63 69 72 112 109 102 105 108 103 89 92 88 93 96 85 95 94 116 113 106 107,10 9 22 \
     21 14 13 54 53 12 16 85 86 31 32 56 55 84 83 43 44 42 39 38 46 37 45 47 48 89 90 81 82 66 65 61 \
     62 67 68 74 73 79 80 77 78 91 92 102 101 97 98 103 104 114 113 109 110 115 116,7 8 5 6 23 24 31 \
     42 43 44 32 39 40 41 29 30 27 28 37 38 34 36 51 52 49 50 56 55 60 59 64 63 68 67 72 71 76 75 80 \
     79 84 83 88 87 92 91 96 95 100 99 104 103 108 107 112 111 116 115:3 3 4 3 3 3 4 4 4 3 3 3 3 3 3 \
     3 3 3,10 4 4 4 4 3 5 3 5 3 5 5 3,3 3 3 3 3 3 4 4 4 4 3 3 3 3 3 3 3 3>";

/// Second, independent witness (136 chambers, from the corpus symbol <45.7:...>).
const X136: &str =
    "<1.1:136 3:2 5 6 8 11 12 15 16 18 20 24 25 26 29 30 33 34 37 38 41 42 44 48 49 50 53 54 57 58 61 \
     62 65 66 69 70 73 74 76 78 80 82 85 86 88 91 92 96 95 100 101 102 105 106 108 110 113 114 118 \
     119 120 123 124 126 128 130 132 134 136,46 7 136 26 104 45 126 41 42 31 32 37 38 27 28 86 132 44 \
     59 33 34 127 39 40 35 36 73 60 128 125 87 57 58 63 64 65 66 71 72 81 75 99 80 88 79 133 103 102 \
     113 114 89 96 129 95 94 123 124 115 116 134 135 120 109 117 130 131 121 122,84 86 4 6 36 38 20 \
     30 19 28 94 54 95 52 42 40 37 23 35 26 48 45 96 58 93 56 68 70 92 90 47 50 76 75 108 107 80 114 \
     79 112 69 89 67 91 122 106 124 104 85 83 109 110 118 115 113 99 111 102 123 121 117 120 134 133 \
     129 130 135 136,6 4 77 78 26 23 10 12 14 16 89 91 50 47 22 25 28 30 32 34 36 38 40 42 88 87 46 \
     49 52 54 56 58 60 62 64 66 68 70 72 74 81 82 102 99 84 86 120 117 108 109 110 107 98 101 104 106 \
     112 114 116 119 122 124 128 127 132 131 136 135:4 3 4 4 4 3 3 4 4 4 3 3 3 3 3 4 3 3 3 3,3 4 4 15 \
     5 3 3 3 3 4 4 5 3 3 3 3,3 3 3 3 4 4 4 4 4 4 3 3 3 3 4 4 3 3 3 3>";

/// w with all occurrences of generator g removed and freely/cyclically reduced
fn drop_generator(w: &FreeWord, g: isize) -> Vec<isize> {
    let mut out: Vec<isize> = vec![];
    for &x in w.iter() {
        if x == g || x == -g { continue; }
        if out.last() == Some(&-x) { out.pop(); } else { out.push(x); }
    }
    while out.len() >= 2 && out[0] == -out[out.len() - 1] {
        out.pop();
        out.remove(0);
    }
    out
}

fn is_commutator_of(w: &[isize], a: isize, b: isize) -> bool {
    w.len() == 4 && w[2] == -w[0] && w[3] == -w[1]
        && ((w[0].abs() == a && w[1].abs() == b) || (w[0].abs() == b && w[1].abs() == a))
}

/// Independent proof that a symbol is a 3-torus: it is a closed orientable
/// 3-manifold cell complex (checked from the definitions) and its fundamental
/// group presentation says that one generator is trivial and the other three
/// commute pairwise, while H_1 = Z^3. Hence pi_1 is a quotient of Z^3 with
/// abelianisation Z^3, i.e. pi_1 = Z^3, and a closed orientable 3-manifold
/// with that group is the 3-torus. Also checks the subgroup counts of Z^3.
fn presentation_shows_z3(x: &PartialDSym) -> bool {
    let fg = fundamental_group(x);
    let n = fg.nr_generators();
    let trivial: Vec<isize> = fg.relators.iter()
        .filter(|w| w.len() == 1).map(|w| w[0].abs()).collect();
    if n != 3 + trivial.len() {
        return false;
    }
    let mut reduced: Vec<Vec<isize>> = vec![];
    for w in &fg.relators {
        let mut v: Vec<isize> = w.iter().cloned().collect();
        for &g in &trivial {
            v = drop_generator(&FreeWord::from(v), g);
        }
        reduced.push(v);
    }
    let gens: Vec<isize> = (1..=n as isize).filter(|g| !trivial.contains(g)).collect();
    for (i, &a) in gens.iter().enumerate() {
        for &b in &gens[i + 1..] {
            if !reduced.iter().any(|w| is_commutator_of(w, a, b)) {
                return false;
            }
        }
    }
    true
}

fn assert_is_three_torus(x: &PartialDSym) {
    assert!(is_closed_oriented_manifold_symbol(x));
    assert!(in_domain(x));
    let fg = fundamental_group(x);
    let n = fg.nr_generators();
    assert_eq!(abelian_invariants(n, &fg.relators), vec![0, 0, 0]);
    // the presentation read off depends on the numbering; the group does not
    let shown = presentation_shows_z3(x) || (1..=200u64).any(|seed|
        presentation_shows_z3(&renumber(x, &Rng(seed).perm(x.size())))
    );
    assert!(shown, "no numbering gives a presentation that visibly is Z^3");
    let mut per_index = std::collections::BTreeMap::new();
    for t in coset_tables(n, &fg.relators, 4) {
        *per_index.entry(t.len()).or_insert(0usize) += 1;
        let (sg, sr) = stabilizer(0, fg.relators.clone(), &t);
        assert_eq!(abelian_invariants(sg.len(), &sr), vec![0, 0, 0]);
    }
    assert_eq!(per_index, std::collections::BTreeMap::from([(1, 1), (2, 7), (3, 13), (4, 35)]));
}

/// Finding 1a: a 3-torus is reported non-euclidean ("cover is a lens space").
#[test]
fn finding1_three_torus_reported_non_euclidean() {
    let mut wrong = vec![];
    for s in [X116, X136] {
        let x = sym(s);
        assert_is_three_torus(&x);
        // not an accident of hash order: same answer every time
        let mut verdicts = std::collections::BTreeMap::new();
        for _ in 0..10 {
            *verdicts.entry(verdict(&x)).or_insert(0) += 1;
        }
        println!("{} chambers: {:?}", x.size(), verdicts);
        if verdicts.keys().any(|v| v.0 != 'Y') {
            wrong.push((x.size(), verdicts));
        }
    }
    assert!(wrong.is_empty(), "3-tori not reported euclidean: {:?}", wrong);
}

/// Finding 1b: the verdict class of X116 changes under renumbering and under
/// dualisation.
#[test]
fn finding1_verdict_class_depends_on_numbering_and_dual() {
    let x = sym(X116);
    let v = verdict(&x);
    let vd = verdict(&dual_of(&x));
    let mut classes = std::collections::BTreeMap::new();
    for seed in 1..=12u64 {
        let r = renumber(&x, &Rng(seed).perm(x.size()));
        let w = verdict(&r);
        println!("renumbered with seed {}: {:?}", seed, w);
        *classes.entry(w.0).or_insert(0) += 1;
    }
    println!("as given: {:?}; dual: {:?}; renumberings: {:?}", v, vd, classes);
    assert_eq!(v.0, vd.0, "symbol and dual get different verdict classes");
    assert_eq!(classes.len(), 1, "renumberings get different verdict classes");
}

/// Finding 1c: contradiction along covers: X116 is reported non-euclidean but
/// some of its 2- and 3-sheeted covers are reported euclidean.
#[test]
fn finding1_contradiction_along_covers() {
    let x = sym(X116);
    let v = verdict(&x);
    let mut bad = 0;
    for c in covers(&x, 3) {
        let w = verdict(&c);
        println!("{}-sheeted cover: {:?}", c.size() / x.size(), w);
        if (v.0 == 'N' && w.0 == 'Y') || (v.0 == 'Y' && w.0 == 'N') { bad += 1; }
    }
    assert_eq!(bad, 0, "symbol is {:?} but {} covers have the opposite verdict", v, bad);
}


/// Finding 2 (totality): is_euclidean panics on the dual of T^3 # P.
#[test]
fn finding2_panic_on_connected_sum_with_homology_sphere() {
    let p = poincare_sphere();
    // P really is the Poincare sphere
    assert_eq!(p.size(), 120);
    assert!(is_closed_oriented_manifold_symbol(&p));
    let fg = fundamental_group(&p);
    assert_eq!(abelian_invariants(fg.nr_generators(), &fg.relators), Vec::<usize>::new());
    assert_eq!(coset_table(fg.nr_generators(), &fg.relators, &vec![]).len(), 120);

    let x = dual_of(&torus_sum_poincare());
    // in the property's domain
    assert_eq!(x.size(), 264);
    assert!(is_closed_oriented_manifold_symbol(&x));
    assert!(in_domain(&x));
    let fg = fundamental_group(&x);
    assert_eq!(abelian_invariants(fg.nr_generators(), &fg.relators), vec![0, 0, 0]);

    // diagnosis through the public pipeline steps: the simplified cover is
    // disconnected, and derived::canonical cannot cope with that
    let cov = pseudo_toroidal_cover(&x).expect("cover exists");
    let simp = simplify(&cov).expect("not a lens space");
    println!("simplified cover: {} chambers, connected: {}", simp.size(), simp.is_connected());

    let mut panics = 0;
    for _ in 0..5 {
        let v = verdict(&x);
        println!("verdict: {:?}", v);
        if v.0 == 'P' { panics += 1; }
    }
    assert_eq!(panics, 0, "is_euclidean panicked in {} of 5 calls on an in-domain symbol", panics);
}

/// Finding 2, second witness (432 chambers, panics in the numbering in which
/// it is built): the torus is a 3-sheeted-or-less cover of the toroidal cover
/// of <2.1:2 3:1 2,1 2,1 2,2:3 3,3 4,4> with one tile coned.
#[test]
fn finding2_second_witness() {
    let p = poincare_sphere();
    let t0 = pseudo_toroidal_cover(&sym(CORPUS[2])).unwrap();
    let mut found = None;
    'outer: for t in covers(&t0, 3) {
        for d in t.orbit_reps([0, 1, 2], 1..=t.size()) {
            if good_tet(&t, d) { found = Some((t.clone(), d)); break 'outer; }
        }
        for d in t.orbit_reps([0, 1, 2], 1..=t.size()) {
            if t.orbit([0, 1, 2], d).iter().any(|&e| t.m(0, 1, e) == Some(3)) {
                let c = cone_tiles(&t, &[d]);
                for e in c.orbit_reps([0, 1, 2], 1..=c.size()) {
                    if good_tet(&c, e) { found = Some((c.clone(), e)); break 'outer; }
                }
            }
        }
    }
    let (t, d) = found.unwrap();
    assert_eq!(verdict(&t).0, 'Y');
    let x = connected_sum(&t, d, &p, 1);
    assert!(is_closed_oriented_manifold_symbol(&x) && in_domain(&x));
    let v = verdict(&x);
    println!("size {} verdict {:?}", x.size(), v);
    assert_ne!(v.0, 'P', "is_euclidean panicked: {}", v.1);
}

/// Finding 2b (invariance under dual and renumbering): T^3 # P is reported
/// "undecided", its dual does not get that verdict, and two renumberings of
/// the dual disagree with each other.
#[test]
fn finding2_verdict_depends_on_dual_and_numbering_too() {
    let x = torus_sum_poincare();
    let v = verdict(&x);
    let vd = verdict(&dual_of(&x));
    println!("symbol: {:?}, dual: {:?}", v, vd);
    let xd = dual_of(&x);
    let r1 = renumber(&xd, &Rng(1).perm(xd.size()));
    let r6 = renumber(&xd, &Rng(6).perm(xd.size()));
    let (v1, v6) = (verdict(&r1), verdict(&r6));
    println!("dual renumbered with seed 1: {:?}, with seed 6: {:?}", v1, v6);
    assert_eq!(v.0, vd.0, "verdict class of the symbol and of its dual differ");
    assert_eq!(v1.0, v6.0, "verdict class differs between two renumberings");
}

// ---------------------------------------------------------------------------
// SWEEPS (these tests pass on the unmodified code)
// ---------------------------------------------------------------------------

/// Certificate behind a Yes: a branch-free finite cover with H_1 = Z^3 whose
/// group has exactly the subgroups of Z^3 up to index 3 (1 + 7 + 13 classes),
/// all of them with H_1 = Z^3.
fn has_torus_certificate<T: DSym>(ds: &T) -> bool {
    let cov = match pseudo_toroidal_cover(ds) { Some(c) => c, None => return false };
    for d in 1..=cov.size() {
        for i in 0..3 {
            if cov.v(i, i + 1, d) != Some(1) { return false; }
        }
    }
    let fg = fundamental_group(&cov);
    let n = fg.nr_generators();
    if abelian_invariants(n, &fg.relators) != vec![0, 0, 0] { return false; }
    let mut count = 0;
    for table in coset_tables(n, &fg.relators, 3) {
        count += 1;
        let (sg, sr) = stabilizer(0, fg.relators.clone(), &table);
        if abelian_invariants(sg.len(), &sr) != vec![0, 0, 0] { return false; }
    }
    count == 21
}

#[test]
fn sweep_corpus_all_renumberings_and_duals() {
    for s in CORPUS {
        let ds = sym(s);
        assert!(in_domain(&ds));
        assert!(has_torus_certificate(&ds));
        for p in all_perms(ds.size()) {
            let r = renumber(&ds, &p);
            assert_eq!(verdict(&r).0, 'Y', "{} renumbered {:?}", s, p);
            assert_eq!(verdict(&dual_of(&r)).0, 'Y', "dual of {} renumbered {:?}", s, p);
        }
        // the same through the other DSym implementation
        let simple = rust_dsymbols::dsyms::SimpleDSym::from(ds.clone());
        assert_eq!(verdict(&simple).0, 'Y');
    }
}

#[test]
fn sweep_corpus_covers_up_to_5_sheets() {
    let mut rng = Rng(0x1234567);
    let mut n = 0;
    for s in CORPUS {
        for c in covers(&sym(s), 5) {
            assert!(in_domain(&c));
            let r = renumber(&c, &rng.perm(c.size()));
            for x in [c.clone(), r.clone(), dual_of(&r)] {
                assert_eq!(verdict(&x).0, 'Y', "cover of {}: {}", s, x);
                n += 1;
            }
        }
    }
    println!("{} verdicts, all yes", n);
}

#[test]
fn sweep_covers_of_covers() {
    let mut rng = Rng(2024);
    for s in CORPUS {
        for _ in 0..2 {
            let mut ds = sym(s);
            for deg in [4usize, 4, 3] {
                let cs = covers(&ds, deg);
                let k = (rng.next() as usize) % cs.len();
                ds = cs.into_iter().nth(k).unwrap();
                if ds.size() > 150 { break; }
            }
            let r = renumber(&ds, &rng.perm(ds.size()));
            for x in [ds.clone(), r.clone(), dual_of(&r)] {
                assert_eq!(verdict(&x).0, 'Y', "iterated cover of {}: {}", s, x);
            }
        }
    }
}

#[test]
fn sweep_prisms_over_wallpaper_groups() {
    let mut seen: std::collections::BTreeMap<String, usize> = Default::default();
    let mut rng = Rng(99);
    for dset in DSets::new(2, 8) {
        for ds2 in DSyms::new(&dset, Geometries::Euclidean) {
            let g = orbifold_symbol(&ds2);
            let k = seen.entry(g.clone()).or_insert(0);
            if *k >= 12 { continue; }
            *k += 1;
            let p = prism(&ds2);
            assert!(in_domain(&p));
            let r = renumber(&p, &rng.perm(p.size()));
            for x in [p.clone(), r.clone(), dual_of(&r)] {
                assert_eq!(verdict(&x).0, 'Y', "prism over {} ({}): {}", ds2, g, x);
            }
        }
    }
    println!("groups: {:?}", seen);
    // all 17 wallpaper groups (the 2D symbol *632 also shows up as *623)
    for g in ["o", "xx", "*x", "**", "2222", "22x", "22*", "*2222", "2*22",
              "442", "4*2", "*442", "333", "3*3", "*333", "632"] {
        assert!(seen.contains_key(g), "missing {}", g);
    }
    assert!(seen.contains_key("*632") || seen.contains_key("*623"));
}

/// One-tile fundamental domains of random shape: all tiles of a cover of a
/// toroidal cover are merged along a random spanning tree, then all vertices.
#[test]
fn sweep_random_spanning_tree_domains() {
    let mut rng = Rng(11);
    let (mut n, mut skipped) = (0, 0);
    for s in CORPUS {
        let t0 = pseudo_toroidal_cover(&sym(s)).unwrap();
        let cs = covers(&t0, 3);
        for _ in 0..6 {
            let c = &cs[(rng.next() as usize) % cs.len()];
            let m1 = random_merge_tiles(c, &mut rng);
            let m2 = dual_of(&random_merge_tiles(&dual_of(&m1), &mut rng));
            for x in [&m1, &m2] {
                if !in_domain(x) { skipped += 1; continue; }
                assert_eq!(verdict(x).0, 'Y', "merged cover of toroidal cover of {}: {}", s, x);
                n += 1;
            }
        }
    }
    println!("{} yes, {} merges skipped (vertex figure not a sphere)", n, skipped);
}

#[test]
fn sweep_covers_of_toroidal_covers_repeated_calls() {
    for s in CORPUS {
        let cov = pseudo_toroidal_cover(&sym(s)).unwrap();
        for c in covers(&cov, 3) {
            assert!(in_domain(&c));
            for _ in 0..2 {
                assert_eq!(verdict(&c).0, 'Y', "torus cover of {} with {} chambers", s, c.size());
            }
        }
    }
}

#[test]
fn sweep_random_refinements() {
    let mut rng = Rng(7);
    for s in CORPUS {
        for _ in 0..6 {
            let mut ds = sym(s);
            for _ in 0..4 {
                if rng.next() % 2 == 0 { ds = dual_of(&ds); }
                let nx = if rng.next() % 3 == 0 {
                    let edges = ds.orbit_reps([0, 2, 3], 1..=ds.size());
                    let picks: Vec<usize> = edges.iter().cloned().filter(|_| rng.next() % 3 == 0).collect();
                    if picks.is_empty() { continue; }
                    subdivide_edges(&ds, &picks)
                } else {
                    let tiles = ds.orbit_reps([0, 1, 2], 1..=ds.size());
                    let picks: Vec<usize> = tiles.iter().cloned().filter(|_| rng.next() % 2 == 0).collect();
                    let picks = if picks.is_empty() { vec![tiles[0]] } else { picks };
                    cone_tiles(&ds, &picks)
                };
                if nx.size() > 250 { break; }
                ds = nx;
            }
            assert!(in_domain(&ds));
            assert_eq!(verdict(&ds).0, 'Y', "refinement of {}: {}", s, ds);
        }
    }
}

#[test]
fn sweep_connected_sums_with_spheres() {
    // T^3 # S^3 = T^3, with S^3 the boundary of the 4-simplex / the 16-cell
    let s5 = finite_universal_cover(&sym("<1.1:1 3:1,1,1,1:3,3,3>"));
    let s16 = finite_universal_cover(&sym("<1.1:1 3:1,1,1,1:3,3,4>"));
    let mut rng = Rng(77);
    let mut n = 0;
    for s in CORPUS {
        let t0 = pseudo_toroidal_cover(&sym(s)).unwrap();
        let mut found: Option<(PartialDSym, usize)> = None;
        'outer: for t in covers(&t0, 2) {
            for d in t.orbit_reps([0, 1, 2], 1..=t.size()) {
                if is_free_tetrahedron(&t, d) { found = Some((t.clone(), d)); break 'outer; }
            }
            for d in t.orbit_reps([0, 1, 2], 1..=t.size()) {
                if t.orbit([0, 1, 2], d).iter().any(|&e| t.m(0, 1, e) == Some(3)) {
                    let c = cone_tiles(&t, &[d]);
                    for e in c.orbit_reps([0, 1, 2], 1..=c.size()) {
                        if is_free_tetrahedron(&c, e) { found = Some((c.clone(), e)); break 'outer; }
                    }
                }
            }
        }
        if let Some((t, d)) = found {
            for b in [&s5, &s16] {
                let x = connected_sum(&t, d, b, 1);
                assert!(in_domain(&x) && is_closed_oriented_manifold_symbol(&x));
                let r = renumber(&x, &rng.perm(x.size()));
                for y in [x.clone(), dual_of(&x), r.clone(), dual_of(&r)] {
                    assert_eq!(verdict(&y).0, 'Y', "T^3 # S^3 from {}, {} chambers", s, y.size());
                    n += 1;
                }
            }
        }
    }
    assert!(n >= 80);
}

/// all assignments of v in {1,2,3,4,6} to the (i,i+1)-orbits of a 3D D-set
/// that give spherical tiles and vertex figures
fn symbols_on(dset: &rust_dsymbols::dsets::SimpleDSet) -> Vec<PartialDSym> {
    let n = dset.size();
    let base = build_set(n, 3, |i, d| dset.op(i, d));
    let mut orbits: Vec<(usize, usize)> = vec![];
    for i in 0..3 {
        for d in dset.orbit_reps_2d(i, i + 1) {
            orbits.push((i, d));
        }
    }
    let choices = [1usize, 2, 3, 4, 6];
    let mut out = vec![];
    let mut idx = vec![0usize; orbits.len()];
    loop {
        let vs: std::collections::BTreeMap<(usize, usize), usize> =
            orbits.iter().zip(idx.iter()).map(|(&o, &k)| (o, choices[k])).collect();
        let ds = build_sym_using_vs(base.clone(), |i, d| vs.get(&(i, d)).cloned());
        if in_domain(&ds) {
            out.push(ds);
        }
        let mut k = 0;
        loop {
            if k == idx.len() { return out; }
            idx[k] += 1;
            if idx[k] < choices.len() { break; }
            idx[k] = 0;
            k += 1;
        }
    }
}

/// Every in-domain symbol with up to 3 chambers: no panic, same class for all
/// renumberings and the dual, no yes/no contradiction with the covers of up
/// to 3 sheets, certificate for every yes.
#[test]
fn sweep_exhaustive_small_symbols() {
    let (mut nsyms, mut nyes) = (0, 0);
    for dset in DSets::new(3, 3) {
        for ds in symbols_on(&dset) {
            nsyms += 1;
            let v = verdict(&ds);
            assert_ne!(v.0, 'P', "{}", ds);
            if v.0 == 'Y' {
                nyes += 1;
                assert!(has_torus_certificate(&ds), "{}", ds);
            }
            for p in all_perms(ds.size()) {
                let r = renumber(&ds, &p);
                assert_eq!(verdict(&r).0, v.0, "{} vs {}", ds, r);
                assert_eq!(verdict(&dual_of(&r)).0, v.0, "{} vs dual of {}", ds, r);
            }
            if v.0 == 'Y' || !v.1.starts_with("orbifold inv") {
                for c in covers(&ds, 3) {
                    let w = verdict(&c);
                    assert!(!(v.0 == 'Y' && w.0 != 'Y') && !(v.0 == 'N' && w.0 == 'Y') && w.0 != 'P',
                        "{} {:?} vs cover {} {:?}", ds, v, c, w);
                }
            }
        }
    }
    println!("{} symbols, {} yes", nsyms, nyes);
}
